(* ConvSound.v — every conversion built with the combinators proves an equation
   whose left side is the given term, with hypotheses from the allowed set;
   the conjunction / disjunction normal form is canonical and idempotent. *)
From Coq Require Import List String Bool Arith Lia.
Import ListNotations.
From HolpyV Require Import Kernel KernelLemmas TermOrd TermOrdSound ConvModel.
Open Scope string_scope.
Open Scope list_scope.
Open Scope nat_scope.

(* ------------------------------------------------------------------ *)
Section Conv.
Variable H : list tm.     (* hypotheses that conversions may introduce (the supplied conditions) *)

Definition eq_on (t : tm) (th : thm) : Prop :=
  (exists l r, dest_binop "equals" (prop th) = Some (l, r) /\ tm_eqb l t = true) /\
  (forall h, In h (hyps th) -> In h H).

Definition ConvOK (c : conv) : Prop := forall t th, c t = Some th -> eq_on t th.

Lemma mk_eq_dest : forall s t p, mk_eq s t = Some p -> dest_binop "equals" p = Some (s, t).
Proof.
  intros s t p E. unfold mk_eq, equals_const in E. destruct (get_type s); [|discriminate]. inversion E; subst. reflexivity.
Qed.

Lemma reflexive_ok : forall t th, r_reflexive t = Some th -> eq_on t th.
Proof.
  intros t th E. unfold r_reflexive in E. destruct (mk_eq t t) as [p|] eqn:Ep; [|discriminate]. inversion E; subst th.
  split; [|intros h []]. exists t, t. cbn [prop]. split; [apply (mk_eq_dest _ _ _ Ep) | apply tm_eqb_refl].
Qed.

Lemma all_conv_ok : ConvOK all_conv.
Proof. intros t th E. apply (reflexive_ok t th E). Qed.

Lemma no_conv_ok : ConvOK no_conv.
Proof. intros t th E. discriminate. Qed.

Lemma transitive_ok : forall t th1 th2 th l1 r1,
  eq_on t th1 -> dest_binop "equals" (prop th1) = Some (l1, r1) -> eq_on r1 th2 ->
  r_transitive th1 th2 = Some th -> eq_on t th.
Proof.
  intros t th1 th2 th l1 r1 [[l [r [E1 El]]] Hh1] E1' [[l2 [r2 [E2 El2]]] Hh2] E.
  rewrite E1 in E1'. inversion E1'; subst l1 r1. unfold r_transitive in E. rewrite E1, E2 in E.
  destruct (tm_eqb r l2); [|discriminate]. destruct (mk_eq l r2) as [p|] eqn:Ep; [|discriminate]. inversion E; subst th.
  split.
  - exists l, r2. cbn [prop]. split; [apply (mk_eq_dest _ _ _ Ep) | exact El].
  - intros h Hin. cbn [hyps] in Hin. apply in_add_hyps in Hin. destruct Hin; auto.
Qed.

Lemma combination_ok : forall f a th1 th2 th,
  eq_on f th1 -> eq_on a th2 -> r_combination th1 th2 = Some th -> eq_on (Comb f a) th.
Proof.
  intros f a th1 th2 th [[l1 [r1 [E1 El1]]] Hh1] [[l2 [r2 [E2 El2]]] Hh2] E.
  unfold r_combination in E. rewrite E1, E2 in E.
  destruct (get_type l1) as [Tf|]; [|discriminate]. destruct (get_type l2) as [Tx|]; [|discriminate].
  destruct (is_fun_name Tf); [|discriminate]. destruct Tf as [| |n [|d rest]]; try discriminate.
  destruct (ty_eqb d Tx); [|discriminate].
  destruct (mk_eq (Comb l1 l2) (Comb r1 r2)) as [p|] eqn:Ep; [|discriminate]. inversion E; subst th.
  split.
  - exists (Comb l1 l2), (Comb r1 r2). cbn [prop]. split; [apply (mk_eq_dest _ _ _ Ep)|]. cbn [tm_eqb]. rewrite El1, El2. reflexivity.
  - intros h Hin. cbn [hyps] in Hin. apply in_add_hyps in Hin. destruct Hin; auto.
Qed.

Lemma combination_conv_ok : forall c1 c2, ConvOK c1 -> ConvOK c2 -> ConvOK (combination_conv c1 c2).
Proof.
  intros c1 c2 H1 H2 t th E. unfold combination_conv in E. destruct t as [| | |f a| |]; try discriminate.
  destruct (c1 f) as [th1|] eqn:E1; [|discriminate]. destruct (c2 a) as [th2|] eqn:E2; [|discriminate].
  destruct (is_refl_thm th1 && is_refl_thm th2).
  - apply (reflexive_ok _ _ E).
  - apply (combination_ok f a th1 th2 th (H1 _ _ E1) (H2 _ _ E2) E).
Qed.

Lemma then_conv_ok : forall c1 c2, ConvOK c1 -> ConvOK c2 -> ConvOK (then_conv c1 c2).
Proof.
  intros c1 c2 H1 H2 t th E. unfold then_conv in E. destruct (c1 t) as [th1|] eqn:E1; [|discriminate].
  unfold rhs_of in E. destruct (dest_binop "equals" (prop th1)) as [[l1 r1]|] eqn:Ed; [|discriminate].
  destruct (c2 r1) as [th2|] eqn:E2; [|discriminate].
  apply (transitive_ok t th1 th2 th l1 r1 (H1 _ _ E1) Ed (H2 _ _ E2) E).
Qed.

Lemma else_conv_ok : forall c1 c2, ConvOK c1 -> ConvOK c2 -> ConvOK (else_conv c1 c2).
Proof.
  intros c1 c2 H1 H2 t th E. unfold else_conv in E. destruct (c1 t) as [th1|] eqn:E1; [inversion E; subst; apply (H1 _ _ E1) | apply (H2 _ _ E)].
Qed.

Lemma try_conv_ok : forall c, ConvOK c -> ConvOK (try_conv c).
Proof. intros c Hc. apply else_conv_ok; [exact Hc | apply all_conv_ok]. Qed.
Lemma comb_conv_ok : forall c, ConvOK c -> ConvOK (comb_conv c).
Proof. intros c Hc. apply combination_conv_ok; exact Hc. Qed.
Lemma arg_conv_ok : forall c, ConvOK c -> ConvOK (arg_conv c).
Proof. intros c Hc. apply combination_conv_ok; [apply all_conv_ok | exact Hc]. Qed.
Lemma fun_conv_ok : forall c, ConvOK c -> ConvOK (fun_conv c).
Proof. intros c Hc. apply combination_conv_ok; [exact Hc | apply all_conv_ok]. Qed.
Lemma arg1_conv_ok : forall c, ConvOK c -> ConvOK (arg1_conv c).
Proof. intros c Hc. apply fun_conv_ok. apply arg_conv_ok. exact Hc. Qed.
Lemma binop_conv_ok : forall c, ConvOK c -> ConvOK (binop_conv c).
Proof. intros c Hc. apply combination_conv_ok; [apply arg_conv_ok; exact Hc | exact Hc]. Qed.

Lemma every_conv_ok : forall cs, Forall ConvOK cs -> ConvOK (every_conv cs).
Proof.
  intros cs Hcs. induction Hcs as [|c cs Hc Hcs IH]; [apply all_conv_ok|].
  destruct cs as [|c' cs']; [exact Hc|]. cbn [every_conv]. apply then_conv_ok; [exact Hc | exact IH].
Qed.

Lemma top_sweep_conv_ok : forall c, ConvOK c -> ConvOK (top_sweep_conv c).
Proof.
  intros c Hc t. induction t as [n T|n T|n T|f IHf a IHa|x T b IHb|k]; intros th E; cbn [top_sweep_conv] in E;
    destruct (try_conv c _) as [th0|] eqn:E0; try discriminate; pose proof (try_conv_ok c Hc _ _ E0) as K0;
    destruct (negb (is_refl_thm th0)); try (inversion E; subst; exact K0).
  - destruct (top_sweep_conv c f) as [th1|] eqn:E1; [|discriminate]. destruct (top_sweep_conv c a) as [th2|] eqn:E2; [|discriminate].
    apply (combination_ok f a th1 th2 th (IHf _ eq_refl) (IHa _ eq_refl) E).
Qed.

Lemma bottom_conv_ok : forall c, ConvOK c -> ConvOK (bottom_conv c).
Proof.
  intros c Hc t. induction t as [n T|n T|n T|f IHf a IHa|x T b IHb|k]; intros th E; cbn [bottom_conv] in E;
    try (apply (try_conv_ok c Hc _ _ E)); try discriminate.
  revert E. apply (then_conv_ok _ _).
  - intros u th' E'. destruct u as [| | |f' a'| |]; try discriminate.
    destruct (bottom_conv c f) as [th1|] eqn:E1; [|discriminate]. destruct (r_reflexive a') as [th2|] eqn:E2; [|discriminate].
    destruct (tm_eqb f f' && tm_eqb a a') eqn:Ee; [|discriminate]. apply andb_true_iff in Ee. destruct Ee as [Ef Ea].
    destruct (is_refl_thm th1 && is_refl_thm th2); [apply (reflexive_ok _ _ E')|].
    pose proof (IHf _ eq_refl) as K1. pose proof (reflexive_ok _ _ E2) as K2.
    destruct (combination_ok f a' th1 th2 th' K1 K2 E') as [[l [r [Ed El]]] Hh]. split; [|exact Hh].
    exists l, r. split; [exact Ed|]. destruct l; cbn [tm_eqb] in El |- *; try discriminate.
    apply andb_true_iff in El. destruct El as [El1 El2]. rewrite (tm_eqb_trans _ _ _ El1 Ef), El2. reflexivity.
  - apply then_conv_ok; [|apply try_conv_ok; exact Hc].
    intros u th' E'. destruct u as [| | |f' a'| |]; try discriminate.
    destruct (r_reflexive f') as [th1|] eqn:E1; [|discriminate]. destruct (bottom_conv c a) as [th2|] eqn:E2; [|discriminate].
    destruct (tm_eqb a a') eqn:Ea; [|discriminate].
    destruct (is_refl_thm th1 && is_refl_thm th2); [apply (reflexive_ok _ _ E')|].
    pose proof (reflexive_ok _ _ E1) as K1. pose proof (IHa _ eq_refl) as K2.
    destruct (combination_ok f' a th1 th2 th' K1 K2 E') as [[l [r [Ed El]]] Hh]. split; [|exact Hh].
    exists l, r. split; [exact Ed|]. destruct l; cbn [tm_eqb] in El |- *; try discriminate.
    apply andb_true_iff in El. destruct El as [El1 El2]. rewrite El1, (tm_eqb_trans _ _ _ El2 Ea). reflexivity.
Qed.
End Conv.

(* ------------------------------------------------------------------ *)
(* the conjunction / disjunction normal form *)
Fixpoint ssorted (l : list tm) : Prop :=
  match l with
  | [] => True
  | x :: l' => (forall y, In y l' -> tm_cmp x y = Lt) /\ ssorted l'
  end.

Lemma cmp_anti : forall s t, tm_cmp t s = CompOpp (tm_cmp s t).
Proof. intros s t. destruct (tm_good s) as [A _]. apply A. Qed.
Lemma cmp_trans : forall s t u x, tm_cmp s t = x -> tm_cmp t u = x -> tm_cmp s u = x.
Proof. intros s t u x. destruct (tm_good s) as [_ [T _]]. apply T. Qed.
Lemma cmp_congr_l : forall s t u, tm_cmp s t = Eq -> tm_cmp s u = tm_cmp t u.
Proof. intros s t u. destruct (tm_good s) as [_ [_ [L _]]]. apply L. Qed.
Lemma cmp_congr_r : forall s t u, tm_cmp t u = Eq -> tm_cmp s t = tm_cmp s u.
Proof. intros s t u. destruct (tm_good s) as [_ [_ [_ R]]]. apply R. Qed.
Lemma cmp_eq : forall s t, tm_cmp s t = Eq <-> tm_eqb s t = true.
Proof. exact tm_cmp_eqb. Qed.
Lemma cmp_refl : forall s, tm_cmp s s = Eq.
Proof. intro s. apply cmp_eq. apply tm_eqb_refl. Qed.

Lemma insert_in : forall x l z, In z (insert_sorted x l) -> z = x \/ In z l.
Proof.
  intros x. induction l as [|y l IH]; intros z Hz; cbn [insert_sorted] in Hz.
  - destruct Hz as [<-|[]]. left. reflexivity.
  - destruct (tm_cmp x y).
    + right. exact Hz.
    + destruct Hz as [<-|Hz]; [left; reflexivity | right; exact Hz].
    + destruct Hz as [<-|Hz]; [right; left; reflexivity|]. destruct (IH z Hz); [left; assumption | right; right; assumption].
Qed.

Lemma insert_ssorted : forall x l, ssorted l -> ssorted (insert_sorted x l).
Proof.
  intros x. induction l as [|y l IH]; intros Hs; cbn [insert_sorted].
  - cbn. split; [intros y []|exact I].
  - destruct Hs as [Hy Hl]. destruct (tm_cmp x y) eqn:E.
    + split; assumption.
    + split; [|split; assumption]. intros z [<-|Hz]; [exact E|]. apply (cmp_trans x y z Lt E (Hy z Hz)).
    + split; [|apply IH; exact Hl]. intros z Hz. destruct (insert_in x l z Hz) as [->|Hz']; [|apply Hy; exact Hz'].
      rewrite cmp_anti, E. reflexivity.
Qed.

Lemma insert_mem : forall x l z, mem_tm z (insert_sorted x l) = tm_eqb z x || mem_tm z l.
Proof.
  intros x. induction l as [|y l IH]; intros z; cbn [insert_sorted mem_tm]; [reflexivity|].
  destruct (tm_cmp x y) eqn:E; cbn [mem_tm].
  - apply cmp_eq in E. destruct (tm_eqb z x) eqn:Ez; [|reflexivity]. rewrite (tm_eqb_trans _ _ _ Ez E). reflexivity.
  - reflexivity.
  - rewrite IH. destruct (tm_eqb z y), (tm_eqb z x); reflexivity.
Qed.

Lemma sorted_terms_ssorted : forall l, ssorted (sorted_terms l).
Proof. induction l as [|x l IH]; [exact I|]. cbn [sorted_terms fold_right]. apply insert_ssorted. exact IH. Qed.

Lemma sorted_terms_mem : forall l z, mem_tm z (sorted_terms l) = mem_tm z l.
Proof.
  induction l as [|x l IH]; intros z; [reflexivity|]. cbn [sorted_terms fold_right mem_tm]. rewrite insert_mem.
  unfold sorted_terms in IH. rewrite IH. reflexivity.
Qed.

Lemma mem_gt_false : forall x l z, (forall y, In y l -> tm_cmp x y = Lt) -> tm_eqb z x = true -> mem_tm z l = false.
Proof.
  intros x l z Hx Hz. destruct (mem_tm z l) eqn:E; [|reflexivity]. apply mem_tm_spec in E. destruct E as [w [Hw Ew]].
  pose proof (Hx w Hw) as Hlt. apply cmp_eq in Hz. apply cmp_eq in Ew.
  rewrite <- (cmp_congr_l z x w Hz) in Hlt. congruence.
Qed.

(* strictly sorted lists with the same members are equal *)
Lemma ssorted_unique : forall l1 l2, ssorted l1 -> ssorted l2 ->
  (forall z, mem_tm z l1 = mem_tm z l2) -> list_tm_eqb l1 l2 = true.
Proof.
  induction l1 as [|x l1 IH]; intros l2 H1 H2 Hm; destruct l2 as [|y l2].
  - reflexivity.
  - specialize (Hm y). cbn [mem_tm] in Hm. rewrite tm_eqb_refl in Hm. discriminate.
  - specialize (Hm x). cbn [mem_tm] in Hm. rewrite tm_eqb_refl in Hm. discriminate.
  - destruct H1 as [Hx H1]. destruct H2 as [Hy H2].
    assert (Exy : tm_eqb x y = true).
    { pose proof (Hm x) as Mx. pose proof (Hm y) as My. cbn [mem_tm] in Mx, My. rewrite tm_eqb_refl in Mx, My. cbn [orb] in Mx, My.
      destruct (tm_eqb x y) eqn:E; [reflexivity|]. cbn [orb] in Mx. symmetry in Mx. apply mem_tm_spec in Mx. destruct Mx as [w [Hw Ew]].
      assert (Lyx : tm_cmp y x = Lt).
      { apply cmp_eq in Ew. rewrite (cmp_congr_r y x w Ew). apply Hy. exact Hw. }
      destruct (tm_eqb y x) eqn:E'; [apply tm_eqb_sym in E'; congruence|]. cbn [orb] in My. apply mem_tm_spec in My. destruct My as [v [Hv Ev]].
      assert (Lxy : tm_cmp x y = Lt).
      { apply cmp_eq in Ev. rewrite (cmp_congr_r x y v Ev). apply Hx. exact Hv. }
      rewrite cmp_anti, Lxy in Lyx. discriminate. }
    cbn [list_tm_eqb]. rewrite Exy. cbn [andb]. apply IH; [exact H1 | exact H2|].
    intros z. specialize (Hm z). cbn [mem_tm] in Hm.
    destruct (tm_eqb z x) eqn:Ez.
    + rewrite (mem_gt_false x l1 z Hx Ez). rewrite (mem_gt_false y l2 z Hy (tm_eqb_trans _ _ _ Ez Exy)). reflexivity.
    + assert (Ezy : tm_eqb z y = false).
      { destruct (tm_eqb z y) eqn:E; [|reflexivity]. rewrite (tm_eqb_trans _ _ _ E (tm_eqb_sym _ _ Exy)) in Ez. discriminate. }
      rewrite Ezy in Hm. exact Hm.
Qed.

Lemma mk_chain_eqb : forall name unit l1 l2, list_tm_eqb l1 l2 = true -> tm_eqb (mk_chain name unit l1) (mk_chain name unit l2) = true.
Proof.
  intros name unit. induction l1 as [|x l1 IH]; intros l2 H; destruct l2 as [|y l2]; try discriminate; [apply tm_eqb_refl|].
  cbn [list_tm_eqb] in H. apply andb_true_iff in H. destruct H as [Hxy Hl].
  destruct l1 as [|x' l1], l2 as [|y' l2]; try discriminate; [exact Hxy|].
  cbn [mk_chain tm_eqb]. rewrite String.eqb_refl, ty_eqb_refl, Hxy. cbn [andb]. apply (IH (y' :: l2) Hl).
Qed.

(* canonicity: terms with the same set of members get the same normal form *)
Theorem norm_canonical : forall name unit s t,
  (forall z, mem_tm z (strip_op name s) = mem_tm z (strip_op name t)) ->
  tm_eqb (norm_op name unit s) (norm_op name unit t) = true.
Proof.
  intros name unit s t H. unfold norm_op. apply mk_chain_eqb. apply ssorted_unique; try apply sorted_terms_ssorted.
  intros z. rewrite !sorted_terms_mem. apply H.
Qed.

(* members of the stripped list are never applications of the operator itself *)
Definition is_op (name : string) (t : tm) : bool :=
  match dest_op name t with Some _ => true | None => false end.

Lemma strip_op_atoms : forall name t x, In x (strip_op name t) -> is_op name x = false.
Proof.
  intros name. fix IH 1. intros t x Hin. destruct t as [n T|n T|n T|f b|y T b|k]; cbn [strip_op] in Hin;
    try (destruct Hin as [<-|[]]; reflexivity).
  destruct f as [n T|n T|n T|g a|y T c|k]; try (destruct Hin as [<-|[]]; reflexivity).
  destruct g as [n T|n T|n T|g' a'|y T c|k]; try (destruct Hin as [<-|[]]; reflexivity).
  destruct (String.eqb n name) eqn:E.
  - apply in_app_or in Hin. destruct Hin as [Hin|Hin]; [apply (IH a x Hin) | apply (IH b x Hin)].
  - destruct Hin as [<-|[]]. unfold is_op, dest_op. rewrite E. reflexivity.
Qed.

Lemma strip_non_op : forall name t, is_op name t = false -> strip_op name t = [t].
Proof.
  intros name t H. destruct t as [| | |f b| |]; try reflexivity. destruct f as [| | |g a| |]; try reflexivity.
  destruct g as [| |n T| | |]; try reflexivity. unfold is_op, dest_op in H. cbn [strip_op]. destruct (String.eqb n name); [discriminate | reflexivity].
Qed.

Lemma strip_mk_chain : forall name unit l, l <> [] -> (forall x, In x l -> is_op name x = false) ->
  strip_op name (mk_chain name unit l) = l.
Proof.
  intros name unit. induction l as [|x l IH]; intros Hne Hl; [congruence|].
  destruct l as [|y l]; [cbn [mk_chain]; apply strip_non_op; apply Hl; left; reflexivity|].
  cbn [mk_chain]. cbn [strip_op]. rewrite String.eqb_refl. rewrite (strip_non_op name x (Hl x (or_introl eq_refl))).
  cbn [app]. f_equal. apply IH; [discriminate | intros z Hz; apply Hl; right; exact Hz].
Qed.

Lemma sorted_in : forall l x, In x (sorted_terms l) -> In x l.
Proof.
  induction l as [|y l IH]; intros x H; [destruct H|]. cbn [sorted_terms fold_right] in H. apply insert_in in H.
  destruct H as [->|H]; [left; reflexivity | right; apply IH; exact H].
Qed.

Lemma strip_op_nonempty : forall name t, strip_op name t <> [].
Proof.
  intros name. fix IH 1. intros t. destruct t as [| | |f b| |]; try discriminate. destruct f as [| | |g a| |]; try discriminate.
  destruct g as [| |n T| | |]; try discriminate. cbn [strip_op]. destruct (String.eqb n name); [|discriminate].
  intro E. apply app_eq_nil in E. destruct E as [E _]. apply (IH a E).
Qed.

Lemma sorted_nonempty : forall l, l <> [] -> sorted_terms l <> [].
Proof.
  intros l Hne E. destruct l as [|x l]; [congruence|].
  assert (M : mem_tm x (sorted_terms (x :: l)) = true) by (rewrite sorted_terms_mem; cbn [mem_tm]; rewrite tm_eqb_refl; reflexivity).
  rewrite E in M. discriminate.
Qed.

(* idempotence: normalising a normal form changes nothing *)
Theorem norm_idempotent : forall name unit t,
  tm_eqb (norm_op name unit (norm_op name unit t)) (norm_op name unit t) = true.
Proof.
  intros name unit t. unfold norm_op at 1 3.
  set (s := sorted_terms (strip_op name t)).
  assert (Hs : strip_op name (norm_op name unit t) = s).
  { unfold norm_op. fold s. apply strip_mk_chain.
    - apply sorted_nonempty. apply strip_op_nonempty.
    - intros x Hx. apply (strip_op_atoms name t x). apply sorted_in. exact Hx. }
  rewrite Hs. apply mk_chain_eqb. apply ssorted_unique; [apply sorted_terms_ssorted | apply sorted_terms_ssorted|].
  intros z. apply sorted_terms_mem.
Qed.
