(* Props_C11.v — property theorems for C11 (only statements closed by [exact]). *)
From Coq Require Import List String Bool Arith.
Import ListNotations.
From HolpyV Require Import Kernel Sem SemLemmas Falsify Sound DefCheck Conservative.

(* What the repaired acceptance test of Definition.parse guarantees about an
   accepted defining equation whose right side does not mention the constant
   (result code 1): the left side is the new constant applied to distinct
   variables; on the right there are no other variables (typed comparison), no
   schematic variables, no type variable absent from the constant's type, no
   occurrence of the constant. *)
Theorem C11_accepted_definition_shape : forall name T prop,
  def_check true name T prop = (1, []) ->
  exists Te args rhs,
    prop = Comb (Comb (Const "equals" Te) (def_lhs name T args)) rhs /\
    forall R, ty_eqb T (fold_right TFun R (map snd args)) = true -> prim_name name = false ->
              def_shape name T args R rhs = true.
Proof. exact def_check_shape. Qed.
Print Assumptions C11_accepted_definition_shape.

(* Conservativity: every standard model of the old signature extends to a
   standard model in which the defining equation is valid under every type
   assignment and valuation ... *)
Theorem C11_definition_conservative : forall DC IC, Standard DC IC ->
  forall name T R args rhs,
  def_shape name T args R rhs = true -> fun_arity_ok T = true -> checked_get_type rhs = Some R ->
  checked_get_type (Comb (Comb (Const "equals" (TFun R (TFun R BoolT))) (def_lhs name T args)) rhs) = Some BoolT ->
  Standard DC (IC_ext DC IC name T args rhs) /\
  valid DC (IC_ext DC IC name T args rhs)
        (mkThm [] (Comb (Comb (Const "equals" (TFun R (TFun R BoolT))) (def_lhs name T args)) rhs)).
Proof. exact def_conservative. Qed.
Print Assumptions C11_definition_conservative.

(* ... and nothing that does not mention the new constant changes its meaning. *)
Theorem C11_extension_changes_nothing_else : forall DC IC name T args rhs thT thS sigV sigS t env,
  const_types name t = [] ->
  eval DC thT thS (IC_ext DC IC name T args rhs) sigV sigS env t = eval DC thT thS IC sigV sigS env t.
Proof. exact def_extension_conservative. Qed.
Print Assumptions C11_extension_changes_nothing_else.

(* the historical acceptance test accepted a circular definition: c x = ~(c x) *)
Example C11_historical_accepts_circular :
  let B := BoolT in
  let c := Const "badc" (TFun B B) in
  let x := Var "x" B in
  let prop := Comb (Comb (Const "equals" (TFun B (TFun B B))) (Comb c x)) (Comb (Const "neg" (TFun B B)) (Comb c x)) in
  def_check false "badc" (TFun B B) prop = (1, []) /\ fst (def_check true "badc" (TFun B B) prop) = 2.
Proof. vm_compute. auto. Qed.

(* non-vacuity: a concrete accepted definition meets the premises *)
Example C11_example_shape :
  let B := BoolT in
  def_shape "nand" (TFun B (TFun B B)) [("p", B); ("q", B)] B
    (Comb (Const "neg" (TFun B B)) (Comb (Comb (Const "conj" (TFun B (TFun B B))) (Var "p" B)) (Var "q" B))) = true.
Proof. vm_compute. reflexivity. Qed.
