(* Props_C11.v — property theorems for C11 (only statements closed by [exact]). *)
From Coq Require Import List String Bool Arith.
Import ListNotations.
From HolpyV Require Import Kernel Sem SemLemmas Falsify Sound DefCheck Conservative Unify UnifySound.

(* What the repaired acceptance test of Definition.parse guarantees about an
   accepted defining equation whose right side does not mention the constant
   (result code 1): the left side is the new constant applied to distinct
   variables; on the right there are no other variables (typed comparison), no
   schematic variables, no type variable absent from the constant's type, no
   occurrence of the constant. *)
Theorem C11_accepted_definition_shape : forall name T prop,
  def_check true name T prop = (1, []) ->
  exists Te args rhs,
    prop = Comb (Comb (Const "equals" Te) (def_lhs name T args)) rhs /\
    forall R, ty_eqb T (fold_right TFun R (map snd args)) = true -> prim_name name = false ->
              def_shape name T args R rhs = true.
Proof. exact def_check_shape. Qed.
Print Assumptions C11_accepted_definition_shape.

(* Conservativity: every standard model of the old signature extends to a
   standard model in which the defining equation is valid under every type
   assignment and valuation ... *)
Theorem C11_definition_conservative : forall DC IC, Standard DC IC ->
  forall name T R args rhs,
  def_shape name T args R rhs = true -> fun_arity_ok T = true -> checked_get_type rhs = Some R ->
  checked_get_type (Comb (Comb (Const "equals" (TFun R (TFun R BoolT))) (def_lhs name T args)) rhs) = Some BoolT ->
  Standard DC (IC_ext DC IC name T args rhs) /\
  valid DC (IC_ext DC IC name T args rhs)
        (mkThm [] (Comb (Comb (Const "equals" (TFun R (TFun R BoolT))) (def_lhs name T args)) rhs)).
Proof. exact def_conservative. Qed.
Print Assumptions C11_definition_conservative.

(* ... and nothing that does not mention the new constant changes its meaning. *)
Theorem C11_extension_changes_nothing_else : forall DC IC name T args rhs thT thS sigV sigS t env,
  const_types name t = [] ->
  eval DC thT thS (IC_ext DC IC name T args rhs) sigV sigS env t = eval DC thT thS IC sigV sigS env t.
Proof. exact def_extension_conservative. Qed.
Print Assumptions C11_extension_changes_nothing_else.

(* the historical acceptance test accepted a circular definition: c x = ~(c x) *)
Example C11_historical_accepts_circular :
  let B := BoolT in
  let c := Const "badc" (TFun B B) in
  let x := Var "x" B in
  let prop := Comb (Comb (Const "equals" (TFun B (TFun B B))) (Comb c x)) (Comb (Const "neg" (TFun B B)) (Comb c x)) in
  def_check false "badc" (TFun B B) prop = (1, []) /\ fst (def_check true "badc" (TFun B B) prop) = 2.
Proof. vm_compute. auto. Qed.

(* non-vacuity: a concrete accepted definition meets the premises *)
Example C11_example_shape :
  let B := BoolT in
  def_shape "nand" (TFun B (TFun B B)) [("p", B); ("q", B)] B
    (Comb (Const "neg" (TFun B B)) (Comb (Comb (Const "conj" (TFun B (TFun B B))) (Var "p" B)) (Var "q" B))) = true.
Proof. vm_compute. reflexivity. Qed.

(* Overloaded constants (result code 2 of the acceptance test): an occurrence of
   the constant on the right is tolerated only at a type that does not overlap
   the declared one.  The model of types_overlap (variables of the two types
   independent, TVar and STVar both instantiable) is right whenever it answers
   "no overlap": no instantiation of the variables of either side makes the two
   types equal.  (The converse -- "overlap" answers are witnessed by a common
   instance -- is not proved; a wrong "overlap" only rejects a definition.) *)
Theorem C11_no_overlap_is_right : forall fuel T1 T2, overlap fuel T1 T2 = Some false ->
  forall f g, ty_inst f T1 <> ty_inst g T2.
Proof. exact overlap_complete. Qed.
Print Assumptions C11_no_overlap_is_right.

(* non-vacuity, both verdicts: 'a list list vs 'a list overlap once the variables are
   independent; nat list vs nat list list do not; 'a => 'a list vs 'a => 'a list list
   are separated by the occurs check *)
Example C11_overlap_examples :
  let a := TVar "a" in let L T := TConst "list" [T] in let N := TConst "nat" [] in
  overlap 100 (L (L a)) (L a) = Some true /\
  overlap 100 (L N) (L (L N)) = Some false /\
  overlap 100 (TFun a (L a)) (TFun a (L (L a))) = Some false.
Proof. vm_compute. auto. Qed.
