(* SubstSound.v — the de Bruijn operations of kernel/term.py preserve typing
   and denotation (C03): type instantiation, substitution for a bound variable,
   abstraction over a variable, beta-normalisation. *)
From Coq Require Import List String Bool Arith Lia.
Import ListNotations.
From HolpyV Require Import Kernel KernelLemmas Sem SemLemmas.
Open Scope string_scope.
Open Scope list_scope.
Open Scope nat_scope.

(* ------------------------------------------------------------------ *)
(* typing *)

Lemma is_fun_subst : forall s n args, is_fun_name (TConst n args) = true ->
  is_fun_name (ty_subst s (TConst n args)) = true.
Proof. intros s n args H. cbn [ty_subst is_fun_name] in *. exact H. Qed.

Lemma checked_subst_type : forall s t bd T,
  checked_get_type_rec t bd = Some T ->
  checked_get_type_rec (tm_subst_type s t) (map (ty_subst s) bd) = Some (ty_subst s T).
Proof.
  intros s. induction t as [n U|n U|n U|f IHf a IHa|x U b IHb|k]; intros bd T H; cbn [tm_subst_type checked_get_type_rec] in *.
  - inversion H. reflexivity.
  - inversion H. reflexivity.
  - inversion H. reflexivity.
  - destruct (checked_get_type_rec f bd) as [Tf|] eqn:Ef; [|discriminate].
    destruct (checked_get_type_rec a bd) as [Ta|] eqn:Ea; [|discriminate].
    rewrite (IHf _ _ Ef), (IHa _ _ Ea).
    destruct (is_fun_name Tf) eqn:Efun; [|discriminate].
    destruct Tf as [m|m|m [|d [|r rest]]]; try discriminate.
    + destruct (ty_eqb d Ta); discriminate.
    + destruct (ty_eqb d Ta) eqn:Ed; [|discriminate]. inversion H; subst T. apply ty_eqb_eq in Ed. subst Ta.
      cbn [ty_subst map is_fun_name] in *. rewrite Efun. rewrite ty_eqb_refl. reflexivity.
  - destruct (checked_get_type_rec b (U :: bd)) as [Tb|] eqn:Eb; [|discriminate]. inversion H; subst T.
    pose proof (IHb _ _ Eb) as E. cbn [map] in E. rewrite E. reflexivity.
  - rewrite nth_error_map, H. reflexivity.
Qed.

Lemma checked_incr : forall t l1 ins ctx T,
  checked_get_type_rec t (l1 ++ ctx) = Some T ->
  checked_get_type_rec (incr_boundvars_rec t (List.length l1) (List.length ins)) (l1 ++ ins ++ ctx) = Some T.
Proof.
  induction t as [n U|n U|n U|f IHf a IHa|x U b IHb|k]; intros l1 ins ctx T H; cbn [incr_boundvars_rec checked_get_type_rec] in *; try exact H.
  - destruct (checked_get_type_rec f (l1 ++ ctx)) as [Tf|] eqn:Ef; [|discriminate].
    destruct (checked_get_type_rec a (l1 ++ ctx)) as [Ta|] eqn:Ea; [|discriminate].
    rewrite (IHf _ ins _ _ Ef), (IHa _ ins _ _ Ea). exact H.
  - destruct (checked_get_type_rec b (U :: l1 ++ ctx)) as [Tb|] eqn:Eb; [|discriminate].
    pose proof (IHb (U :: l1) ins ctx Tb Eb) as E. cbn [Datatypes.app Datatypes.length] in E. rewrite E. exact H.
  - destruct (List.length l1 <=? k) eqn:E; cbn [checked_get_type_rec].
    + apply Nat.leb_le in E. rewrite nth_error_app2 in H by lia. rewrite nth_error_app2 by lia. rewrite nth_error_app2 by lia.
      rewrite <- H. f_equal. lia.
    + apply Nat.leb_gt in E. rewrite nth_error_app1 in H by lia. rewrite nth_error_app1 by lia. exact H.
Qed.

Lemma checked_subst_bound : forall b pre U ctx Tb t,
  checked_get_type_rec b (pre ++ U :: ctx) = Some Tb ->
  checked_get_type_rec t ctx = Some U ->
  checked_get_type_rec (subst_bound_rec b (List.length pre) t) (pre ++ ctx) = Some Tb.
Proof.
  induction b as [n V|n V|n V|f IHf a IHa|x V c IHc|k]; intros pre U ctx Tb t H Ht; cbn [subst_bound_rec checked_get_type_rec] in *; try exact H.
  - destruct (checked_get_type_rec f (pre ++ U :: ctx)) as [Tf|] eqn:Ef; [|discriminate].
    destruct (checked_get_type_rec a (pre ++ U :: ctx)) as [Ta|] eqn:Ea; [|discriminate].
    rewrite (IHf _ _ _ _ _ Ef Ht), (IHa _ _ _ _ _ Ea Ht). exact H.
  - destruct (checked_get_type_rec c (V :: pre ++ U :: ctx)) as [Tc|] eqn:Ec; [|discriminate].
    pose proof (IHc (V :: pre) U ctx Tc t Ec Ht) as E. cbn [Datatypes.app Datatypes.length] in E. rewrite E. exact H.
  - destruct (Nat.eqb k (List.length pre)) eqn:E.
    + apply Nat.eqb_eq in E. subst k. rewrite nth_error_app2 in H by lia. rewrite Nat.sub_diag in H. cbn in H. inversion H; subst Tb.
      destruct (is_open t) eqn:Eo.
      * unfold incr_boundvars. apply (checked_incr t [] pre ctx U). exact Ht.
      * unfold is_open in Eo. pose proof (checked_closed_ctx t [] (pre ++ ctx) Eo) as E1. pose proof (checked_closed_ctx t [] ctx Eo) as E2.
        cbn [Datatypes.app] in E1, E2. rewrite E1, <- E2. exact Ht.
    + apply Nat.eqb_neq in E. destruct (List.length pre <? k) eqn:E2; cbn [checked_get_type_rec].
      * apply Nat.ltb_lt in E2. rewrite nth_error_app2 in H by lia. rewrite nth_error_app2 by lia.
        replace (k - List.length pre) with (S (k - 1 - List.length pre)) in H by lia. exact H.
      * apply Nat.ltb_ge in E2. rewrite nth_error_app1 in H by lia. rewrite nth_error_app1 by lia. exact H.
Qed.

(* abstraction over a variable: the abstracted variable becomes the outermost
   binder of the context *)
Lemma checked_abstract_over : forall x s k s' pre U,
  is_var_or_svar x = true -> abstract_over_rec s k x = Some s' ->
  checked_get_type_rec s pre = Some U -> List.length pre = k ->
  forall n T, var_name_ty x = Some (n, T) -> checked_get_type_rec s' (pre ++ [T]) = Some U.
Proof.
  intros x. induction s as [m V|m V|m V|f IHf a IHa|y V c IHc|j]; intros k s' pre U Hx H Hc Hl n T Hn;
    cbn [abstract_over_rec checked_get_type_rec] in *.
  - destruct x as [m' T'| | | | |]; try (inversion H; subst; exact Hc).
    destruct (String.eqb m m'); [|inversion H; subst; exact Hc].
    destruct (ty_eqb V T') eqn:ET; [|discriminate]. inversion H; subst s'. cbn [checked_get_type_rec].
    apply ty_eqb_eq in ET. cbn in Hn. inversion Hn; subst. inversion Hc; subst.
    rewrite nth_error_app2 by lia. rewrite Nat.sub_diag. reflexivity.
  - destruct x as [|m' T'| | | |]; try (inversion H; subst; exact Hc).
    destruct (String.eqb m m'); [|inversion H; subst; exact Hc].
    destruct (ty_eqb V T') eqn:ET; [|discriminate]. inversion H; subst s'. cbn [checked_get_type_rec].
    apply ty_eqb_eq in ET. cbn in Hn. inversion Hn; subst. inversion Hc; subst.
    rewrite nth_error_app2 by lia. rewrite Nat.sub_diag. reflexivity.
  - inversion H; subst. exact Hc.
  - destruct (abstract_over_rec f k x) as [f'|] eqn:Ef; [|discriminate].
    destruct (abstract_over_rec a k x) as [a'|] eqn:Ea; [|discriminate]. inversion H; subst s'.
    destruct (checked_get_type_rec f pre) as [Tf|] eqn:Cf; [|discriminate].
    destruct (checked_get_type_rec a pre) as [Ta|] eqn:Ca; [|discriminate].
    cbn [checked_get_type_rec]. rewrite (IHf _ _ _ _ Hx Ef Cf Hl _ _ Hn), (IHa _ _ _ _ Hx Ea Ca Hl _ _ Hn). exact Hc.
  - destruct (abstract_over_rec c (S k) x) as [c'|] eqn:Ec; [|discriminate]. inversion H; subst s'.
    destruct (checked_get_type_rec c (V :: pre)) as [Tc|] eqn:Cc; [|discriminate].
    cbn [checked_get_type_rec].
    pose proof (IHc (S k) c' (V :: pre) Tc Hx Ec Cc ltac:(cbn; lia) _ _ Hn) as E. cbn [Datatypes.app] in E. rewrite E. exact Hc.
  - inversion H; subst s'. cbn [checked_get_type_rec].
    assert (j < List.length pre) by (apply nth_error_Some; rewrite Hc; discriminate).
    rewrite nth_error_app1 by lia. exact Hc.
Qed.

(* ------------------------------------------------------------------ *)
(* beta-normalisation: subject reduction and denotation *)
Section Beta.
Variable DC : string -> list sty -> nat.
Variable thT thS : string -> sty.
Variable IC : string -> sty -> V.
Variable sigV sigS : string -> ty -> V.
Hypothesis IC_ok : ic_ok DC IC.
Hypothesis sigV_ok : val_ok DC thT thS sigV.
Hypothesis sigS_ok : val_ok DC thT thS sigS.
Notation tysem := (tysem thT thS).
Notation eval := (eval DC thT thS IC sigV sigS).
Notation env_ok := (env_ok DC thT thS).

Lemma eval_pair_typed : forall t bd T env, checked_get_type_rec t bd = Some T -> env_ok env bd ->
  exists v, eval env t = (tysem T, v) /\ In v (dom DC (tysem T)).
Proof.
  intros t bd T env H He. destruct (eval_typed DC thT thS IC sigV sigS IC_ok sigV_ok sigS_ok t bd T env H He) as [H1 H2].
  destruct (eval env t) as [s v]. cbn [fst snd] in *. subst s. exists v. auto.
Qed.

Lemma beta_redex_sem : forall x U b a bd Tb env,
  checked_get_type_rec b (U :: bd) = Some Tb -> checked_get_type_rec a bd = Some U -> env_ok env bd ->
  eval env (subst_bound_rec b 0 a) = eval env (Comb (Abs x U b) a).
Proof.
  intros x U b a bd Tb env Hb Ha He.
  pose proof (subst_bound_sem DC thT thS IC sigV sigS b [] env a) as Hs. cbn [Datatypes.app Datatypes.length] in Hs. rewrite Hs.
  destruct (eval_pair_typed a bd U env Ha He) as [va [Ea Hva]]. rewrite Ea.
  cbn [Sem.eval]. rewrite Ea.
  assert (Hrow : forall v, In v (dom DC (tysem U)) -> exists w, eval ((tysem U, v) :: env) b = (tysem Tb, w)).
  { intros v Hv. destruct (eval_pair_typed b (U :: bd) Tb ((tysem U, v) :: env) Hb) as [w [Ew _]].
    - constructor; [split; [reflexivity | exact Hv] | exact He].
    - exists w. exact Ew. }
  set (rs := map (fun v => eval ((tysem U, v) :: env) b) (dom DC (tysem U))).
  assert (HR : (match rs with (r, _) :: _ => r | [] => SB end) = tysem Tb).
  { unfold rs. destruct (dom DC (tysem U)) as [|v0 vs] eqn:Ed; [exfalso; eapply dom_nonempty; eauto|]. cbn [map].
    destruct (Hrow v0 (or_introl eq_refl)) as [w0 E0]. rewrite E0. reflexivity. }
  rewrite HR. unfold rs. rewrite map_map.
  rewrite (app_tabulate DC (tysem U) (fun v => snd (eval ((tysem U, v) :: env) b)) va Hva).
  destruct (Hrow va Hva) as [wa Ewa]. rewrite Ewa. reflexivity.
Qed.

Lemma beta_norm_sound : forall fuel t t' bd T env,
  beta_norm fuel t = Some t' -> checked_get_type_rec t bd = Some T -> env_ok env bd ->
  checked_get_type_rec t' bd = Some T /\ eval env t' = eval env t.
Proof.
  induction fuel as [|fuel IH]; intros t t' bd T env H Ht He; [discriminate|].
  destruct t as [n U|n U|n U|f a|x U b|k]; cbn [beta_norm] in H; try (inversion H; subst; auto).
  - destruct (beta_norm fuel f) as [f'|] eqn:Ef; [|discriminate].
    destruct (beta_norm fuel a) as [a'|] eqn:Ea; [|discriminate].
    pose proof Ht as Ht'. cbn [checked_get_type_rec] in Ht'.
    destruct (checked_get_type_rec f bd) as [Tf|] eqn:Cf; [|discriminate].
    destruct (checked_get_type_rec a bd) as [Ta|] eqn:Ca; [|discriminate].
    destruct (IH _ _ _ _ env Ef Cf He) as [Cf' Evf]. destruct (IH _ _ _ _ env Ea Ca He) as [Ca' Eva].
    assert (Hcomb : checked_get_type_rec (Comb f' a') bd = Some T) by (cbn [checked_get_type_rec]; rewrite Cf', Ca'; exact Ht').
    assert (Ecomb : eval env (Comb f' a') = eval env (Comb f a)) by (cbn [Sem.eval]; rewrite Evf, Eva; reflexivity).
    destruct f' as [| | | |y W c|]; try (inversion H; subst; auto).
    (* a redex *)
    cbn [checked_get_type_rec] in Cf'. destruct (checked_get_type_rec c (W :: bd)) as [Tc|] eqn:Cc; [|discriminate].
    inversion Cf'; subst Tf. cbn [is_fun_name] in Ht'. cbn in Ht'.
    destruct (ty_eqb W Ta) eqn:EW; [|discriminate]. inversion Ht'; subst T. apply ty_eqb_eq in EW. subst Ta.
    pose proof (checked_subst_bound c [] W bd Tc a' Cc Ca') as Cs. cbn [Datatypes.app Datatypes.length] in Cs.
    destruct (IH _ _ _ _ env H Cs He) as [Cr Er]. split; [exact Cr|].
    rewrite Er. rewrite (beta_redex_sem y W c a' bd Tc env Cc Ca' He). exact Ecomb.
  - destruct (beta_norm fuel b) as [b'|] eqn:Eb; [|discriminate]. inversion H; subst t'.
    cbn [checked_get_type_rec] in Ht. destruct (checked_get_type_rec b (U :: bd)) as [Tb|] eqn:Cb; [|discriminate].
    assert (Hall : forall v, In v (dom DC (tysem U)) ->
              checked_get_type_rec b' (U :: bd) = Some Tb /\ eval ((tysem U, v) :: env) b' = eval ((tysem U, v) :: env) b).
    { intros v Hv. apply (IH _ _ _ _ _ Eb Cb). constructor; [split; [reflexivity | exact Hv] | exact He]. }
    split.
    + cbn [checked_get_type_rec].
      destruct (dom DC (tysem U)) as [|v0 vs] eqn:Ed; [exfalso; eapply dom_nonempty; eauto|].
      destruct (Hall v0 (or_introl eq_refl)) as [C _]. rewrite C. exact Ht.
    + cbn [Sem.eval].
      assert (E : map (fun v => eval ((tysem U, v) :: env) b') (dom DC (tysem U)) = map (fun v => eval ((tysem U, v) :: env) b) (dom DC (tysem U))).
      { apply map_ext_in. intros v Hv. apply (Hall v Hv). }
      rewrite E. reflexivity.
Qed.
End Beta.
