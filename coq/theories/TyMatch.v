(* TyMatch.v — properties of the model of Type.match_incr (ty_match_incr):
   the result extends the given instantiation, binds every schematic type
   variable of the pattern and instantiates the pattern to the target
   (for types of consistent arity); instantiation is stable under extension. *)
From Coq Require Import List String Bool Arith Lia.
Import ListNotations.
From HolpyV Require Import Kernel KernelLemmas.
Open Scope string_scope.
Open Scope list_scope.
Open Scope nat_scope.

Definition extends (s s' : tyinst) : Prop := forall n U, lookup n s = Some U -> lookup n s' = Some U.

Fixpoint stvars (T : ty) : list string :=
  match T with
  | STVar n => [n]
  | TVar _ => []
  | TConst _ args => flat_map stvars args
  end.

Definition binds (s : tyinst) (ns : list string) : Prop := forall n, In n ns -> lookup n s <> None.

Lemma extends_refl : forall s, extends s s.
Proof. intros s n U H. exact H. Qed.

Lemma extends_trans : forall a b c, extends a b -> extends b c -> extends a c.
Proof. intros a b c H1 H2 n U H. apply H2, H1, H. Qed.

Lemma lookup_app_some : forall (A : Type) n (s s2 : list (string * A)) U, lookup n s = Some U -> lookup n (s ++ s2) = Some U.
Proof.
  intros A n s s2 U. induction s as [|[k v] s IH]; intros H; [discriminate|]. cbn [lookup app] in *.
  destruct (String.eqb n k); [exact H | apply IH; exact H].
Qed.

Lemma lookup_app_none : forall (A : Type) n (s s2 : list (string * A)), lookup n s = None -> lookup n (s ++ s2) = lookup n s2.
Proof.
  intros A n s s2. induction s as [|[k v] s IH]; intros H; [reflexivity|]. cbn [lookup app] in *.
  destruct (String.eqb n k); [discriminate | apply IH; exact H].
Qed.

Lemma binds_extends : forall s s' ns, binds s ns -> extends s s' -> binds s' ns.
Proof.
  intros s s' ns Hb He n Hin. specialize (Hb n Hin). destruct (lookup n s) as [U|] eqn:E; [|congruence].
  rewrite (He n U E). discriminate.
Qed.

(* instantiation only depends on the bindings of the variables that occur *)
Lemma ty_subst_stable : forall s s' T, extends s s' -> binds s (stvars T) -> ty_subst s' T = ty_subst s T.
Proof.
  intros s s' T He. induction T as [n|n|n args IH] using ty_ind'; intros Hb; cbn [ty_subst].
  - specialize (Hb n (or_introl eq_refl)). destruct (lookup n s) as [U|] eqn:E; [|congruence]. rewrite (He n U E). reflexivity.
  - reflexivity.
  - f_equal. cbn [stvars] in Hb. induction IH as [|x xs Hx Hxs IHl]; [reflexivity|]. cbn [map flat_map] in *.
    rewrite Hx, IHl; [reflexivity | |]; intros m Hm; apply Hb; apply in_or_app; auto.
Qed.

(* arity discipline: the zip() in match_incr silently truncates otherwise *)
Section Arity.
Variable ar : string -> nat.

Fixpoint ty_wf (T : ty) : bool :=
  match T with
  | TConst n args => Nat.eqb (List.length args) (ar n) && forallb ty_wf args
  | _ => true
  end.

Lemma ty_match_list_ok : forall args,
  Forall (fun p => forall t s s', ty_wf p = true -> ty_wf t = true -> ty_match_incr p t s = Some s' ->
                     extends s s' /\ binds s' (stvars p) /\ ty_subst s' p = t) args ->
  forall targs s s', forallb ty_wf args = true -> forallb ty_wf targs = true -> List.length args = List.length targs ->
  (fix go (args targs : list ty) (s : tyinst) : option tyinst :=
     match args, targs with
     | a :: args', b :: targs' =>
         match ty_match_incr a b s with
         | Some s' => go args' targs' s'
         | None => None
         end
     | _, _ => Some s
     end) args targs s = Some s' ->
  extends s s' /\ binds s' (flat_map stvars args) /\ map (ty_subst s') args = targs.
Proof.
  intros args IH. induction IH as [|a args Ha Hargs IHl]; intros targs s s' Hw Hwt Hl H.
  - destruct targs; [|discriminate]. inversion H; subst. split; [apply extends_refl|]. split; [intros n []|reflexivity].
  - destruct targs as [|b targs]; [discriminate|]. cbn [forallb] in Hw, Hwt.
    apply andb_true_iff in Hw. destruct Hw as [Hwa Hw]. apply andb_true_iff in Hwt. destruct Hwt as [Hwb Hwt].
    destruct (ty_match_incr a b s) as [s1|] eqn:E1; [|discriminate].
    destruct (Ha b s s1 Hwa Hwb E1) as [E1e [E1b E1s]].
    cbn in Hl. destruct (IHl targs s1 s' Hw Hwt ltac:(lia) H) as [E2e [E2b E2s]].
    split; [eapply extends_trans; eauto|]. split.
    + intros n Hin. cbn [flat_map] in Hin. apply in_app_or in Hin. destruct Hin as [Hin|Hin].
      * apply (binds_extends s1 s' _ E1b E2e n Hin).
      * apply E2b. exact Hin.
    + cbn [map]. rewrite (ty_subst_stable s1 s' a E2e E1b), E1s, E2s. reflexivity.
Qed.

Lemma ty_match_ok : forall p t s s', ty_wf p = true -> ty_wf t = true -> ty_match_incr p t s = Some s' ->
  extends s s' /\ binds s' (stvars p) /\ ty_subst s' p = t.
Proof.
  induction p as [n|n|n args IH] using ty_ind'; intros t s s' Hwp Hwt H; cbn [ty_match_incr] in H.
  - destruct (lookup n s) as [U|] eqn:E.
    + destruct (ty_eqb t U) eqn:Et; [|discriminate]. inversion H; subst s'. apply ty_eqb_eq in Et. subst U.
      split; [apply extends_refl|]. split.
      * intros m [<-|[]]. rewrite E. discriminate.
      * cbn [ty_subst]. rewrite E. reflexivity.
    + inversion H; subst s'. split; [intros m U Hm; apply lookup_app_some; exact Hm|]. split.
      * intros m [<-|[]]. rewrite (lookup_app_none _ n s _ E). cbn [lookup]. rewrite String.eqb_refl. discriminate.
      * cbn [ty_subst]. rewrite (lookup_app_none _ n s _ E). cbn [lookup]. rewrite String.eqb_refl. reflexivity.
  - destruct (ty_eqb (TVar n) t) eqn:Et; [|discriminate]. inversion H; subst s'. apply ty_eqb_eq in Et. subst t.
    split; [apply extends_refl|]. split; [intros m []|reflexivity].
  - destruct t as [m|m|m targs]; try discriminate. destruct (String.eqb n m) eqn:En; [|discriminate]. apply String.eqb_eq in En. subst m.
    cbn [ty_wf] in Hwp, Hwt. apply andb_true_iff in Hwp. destruct Hwp as [Hl1 Hw1]. apply andb_true_iff in Hwt. destruct Hwt as [Hl2 Hw2].
    apply Nat.eqb_eq in Hl1, Hl2.
    destruct (ty_match_list_ok args IH targs s s' Hw1 Hw2 ltac:(lia) H) as [He [Hb Hs]].
    split; [exact He|]. split; [exact Hb|]. cbn [ty_subst]. rewrite Hs. reflexivity.
Qed.
End Arity.

(* extension alone needs no arity discipline *)
Lemma ty_match_extends : forall p t s s', ty_match_incr p t s = Some s' -> extends s s'.
Proof.
  induction p as [n|n|n args IH] using ty_ind'; intros t s s' H; cbn [ty_match_incr] in H.
  - destruct (lookup n s) as [U|] eqn:E.
    + destruct (ty_eqb t U); [|discriminate]. inversion H; subst. apply extends_refl.
    + inversion H; subst. intros m U Hm. apply lookup_app_some. exact Hm.
  - destruct (ty_eqb (TVar n) t); [|discriminate]. inversion H; subst. apply extends_refl.
  - destruct t as [m|m|m targs]; try discriminate. destruct (String.eqb n m); [|discriminate].
    revert targs s s' H. induction IH as [|a args Ha Hargs IHl]; intros targs s s' H.
    + inversion H; subst. apply extends_refl.
    + destruct targs as [|b targs]; [inversion H; subst; apply extends_refl|].
      destruct (ty_match_incr a b s) as [s1|] eqn:E1; [|discriminate].
      eapply extends_trans; [apply (Ha _ _ _ E1) | apply (IHl _ _ _ H)].
Qed.
