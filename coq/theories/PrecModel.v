(* PrecModel.v — the bracket-insertion rules of syntax/pprint.py get_ast_term
   against the precedence ladder of the grammar in syntax/parser.py (C07).
   Operators are table entries (the table is regenerated from the sources on
   every run); [pr] is the printer's bracket decision, [der] says that an AST
   can be derived from a nonterminal of the ladder with every operand sitting at
   a level the grammar rule allows at that position. *)
From Coq Require Import List Bool Arith Lia.
Import ListNotations.
Open Scope list_scope.
Open Scope nat_scope.

(* binary operator: print priority, printer associativity (true = LEFT), ladder
   index of its rule (0 = term, larger = binds tighter) and the shape of the rule
   (0: L: L op N | N;  1: L: N op L | N;  2: L: L op L | N, where N is the next level;
   shape 2 is ambiguous and the LALR parser resolves it by shifting, i.e. like shape 1) *)
Record bop := mkB { b_prio : nat; b_left : bool; b_level : nat; b_shape : nat }.
(* unary operator: print priority, priority as an argument of a binary operator,
   ladder index (rule  L: op L | N) *)
Record uop := mkU { u_prio : nat; u_outer : nat; u_level : nat }.
Record table := mkT { bops : list bop; uops : list uop; comb_level : nat }.

Definition atom_level (tb : table) : nat := S (comb_level tb).
Definition dB : bop := mkB 0 true 0 0.
Definition dU : uop := mkU 0 0 0.
Definition getB (tb : table) (o : nat) : bop := nth o (bops tb) dB.
Definition getU (tb : table) (o : nat) : uop := nth o (uops tb) dU.

(* what the printer sees / what it produces *)
Inductive pt :=
| PAtom                                  (* names, numbers: priority 100 *)
| PDelim (app_prio : bool) (cs : list pt)  (* delimited literals; children in term position; printed priority 100, or 95 when the head is an ordinary constant (set literals) *)
| PApp (h : nat) (f a : pt)               (* application; h = 0 ordinary, 1 = head is a binder constant (priority 10), S (S o) = head is the binary operator o, not applied to exactly two arguments (its priority) *)
| PUn (o : nat) (a : pt)
| PBin (o : nat) (l r : pt)
| PBinder (cs : list pt).                (* binders, if-then-else: priority 10, children in term position *)

Inductive ast :=
| AAtom
| ADelim (cs : list ast)
| AApp (f a : ast)
| AUn (o : nat) (a : ast)
| ABin (o : nat) (l r : ast)
| ABinder (cs : list ast)
| ABr (a : ast).

(* kinds of subterms, as far as bracket decisions are concerned *)
Inductive kind := KAtom | KDelimApp | KApp (h : nat) | KUn (o : nat) | KBin (o : nat) | KBinder.

Definition kind_of (t : pt) : kind :=
  match t with
  | PAtom => KAtom
  | PDelim false _ => KAtom
  | PDelim true _ => KDelimApp
  | PApp h _ _ => KApp h
  | PUn o _ => KUn o
  | PBin o _ _ => KBin o
  | PBinder _ => KBinder
  end.

Section Tb.
Variable tb : table.

(* get_priority_pair *)
Definition prio (k : kind) : nat :=
  match k with
  | KAtom => 100
  | KDelimApp => 95
  | KApp 0 => 95
  | KApp 1 => 10
  | KApp (S (S o)) => b_prio (getB tb o)
  | KUn o => u_prio (getU tb o)
  | KBin o => b_prio (getB tb o)
  | KBinder => 10
  end.
Definition is_fun_appl (k : kind) : bool := match k with KApp 0 | KDelimApp => true | _ => false end.
Definition is_unary (k : kind) : bool := match k with KUn _ => true | _ => false end.
(* get_arg_priority *)
Definition arg_prio (k : kind) : nat := match k with KUn o => u_outer (getU tb o) | _ => prio k end.

(* the grammar level of the unbracketed print of a subterm of that kind *)
Definition out_level (k : kind) : nat :=
  match k with
  | KAtom | KDelimApp => atom_level tb
  | KApp _ => comb_level tb
  | KUn o => u_level (getU tb o)
  | KBin o => b_level (getB tb o)
  | KBinder => 0      (* an atom of the grammar, but greedy: safe only in term position *)
  end.

(* bracket decisions *)
Definition brk_bin_left (o : nat) (k : kind) : bool :=
  let b := getB tb o in
  if b_left b then Nat.ltb (arg_prio k) (b_prio b) else Nat.leb (arg_prio k) (b_prio b).
Definition brk_bin_right (o : nat) (k : kind) : bool :=
  let b := getB tb o in
  if b_left b then Nat.leb (arg_prio k) (b_prio b) else Nat.ltb (arg_prio k) (b_prio b).
Definition brk_un (o : nat) (k : kind) : bool :=
  match k with
  | KUn o' => Nat.ltb (u_outer (getU tb o')) (u_outer (getU tb o))
  | _ => Nat.ltb (prio k) (u_prio (getU tb o)) || is_fun_appl k
  end.
Definition brk_fun (k : kind) : bool := Nat.ltb (prio k) 95 || is_unary k.
Definition brk_arg (k : kind) : bool := Nat.leb (prio k) 95.

Definition br_if (c : bool) (a : ast) : ast := if c then ABr a else a.

Fixpoint pr (t : pt) : ast :=
  match t with
  | PAtom => AAtom
  | PDelim _ cs => ADelim (map pr cs)
  | PApp _ f a => AApp (br_if (brk_fun (kind_of f)) (pr f)) (br_if (brk_arg (kind_of a)) (pr a))
  | PUn o a => AUn o (br_if (brk_un o (kind_of a)) (pr a))
  | PBin o l r => ABin o (br_if (brk_bin_left o (kind_of l)) (pr l)) (br_if (brk_bin_right o (kind_of r)) (pr r))
  | PBinder cs => ABinder (map pr cs)
  end.

(* levels a rule expects of its operands *)
Definition exp_left (o : nat) : nat :=
  let b := getB tb o in match b_shape b with 0 => b_level b | _ => S (b_level b) end.
Definition exp_right (o : nat) : nat :=
  let b := getB tb o in match b_shape b with 0 => S (b_level b) | _ => b_level b end.

(* derivability from the nonterminal with ladder index e *)
Fixpoint der (e : nat) (a : ast) : bool :=
  match a with
  | AAtom => true
  | ADelim cs => forallb (der 0) cs
  | ABr x => der 0 x
  | AApp f x => Nat.leb e (comb_level tb) && der (comb_level tb) f && der (atom_level tb) x
  | AUn o x => Nat.leb e (u_level (getU tb o)) && der (u_level (getU tb o)) x
  | ABin o l r => Nat.leb e (b_level (getB tb o)) && der (exp_left o) l && der (exp_right o) r
  | ABinder cs => Nat.eqb e 0 && forallb (der 0) cs
  end.

(* ---- the finite condition on the table ---------------------------------- *)
Definition kinds : list kind :=
  [KAtom; KDelimApp; KBinder] ++ map KApp (seq 0 (S (S (List.length (bops tb))))) ++
  map KUn (seq 0 (List.length (uops tb))) ++ map KBin (seq 0 (List.length (bops tb))).

Definition imp (a b : bool) : bool := negb a || b.

Definition bin_ok (o : nat) : bool :=
  forallb (fun k => imp (negb (brk_bin_left o k)) (Nat.leb (exp_left o) (out_level k)) &&
                    imp (negb (brk_bin_right o k)) (Nat.leb (exp_right o) (out_level k))) kinds.
Definition un_ok (o : nat) : bool :=
  forallb (fun k => imp (negb (brk_un o k)) (Nat.leb (u_level (getU tb o)) (out_level k))) kinds.
Definition app_ok : bool :=
  forallb (fun k => imp (negb (brk_fun k)) (Nat.leb (comb_level tb) (out_level k)) &&
                    imp (negb (brk_arg k)) (Nat.leb (atom_level tb) (out_level k))) kinds.

Definition table_ok : bool :=
  forallb bin_ok (seq 0 (List.length (bops tb))) && forallb un_ok (seq 0 (List.length (uops tb))) && app_ok.

(* operator indices used by a term are those of the table *)
Fixpoint pt_wf (t : pt) : bool :=
  match t with
  | PAtom => true
  | PDelim _ cs => forallb pt_wf cs
  | PApp h f a => Nat.ltb h (S (S (List.length (bops tb)))) && pt_wf f && pt_wf a
  | PUn o a => Nat.ltb o (List.length (uops tb)) && pt_wf a
  | PBin o l r => Nat.ltb o (List.length (bops tb)) && pt_wf l && pt_wf r
  | PBinder cs => forallb pt_wf cs
  end.
End Tb.

(* harness glue *)
Fixpoint ast_eqb (a b : ast) : bool :=
  match a, b with
  | AAtom, AAtom => true
  | ADelim xs, ADelim ys | ABinder xs, ABinder ys =>
      (fix go (xs ys : list ast) : bool :=
         match xs, ys with
         | [], [] => true
         | x :: xs', y :: ys' => ast_eqb x y && go xs' ys'
         | _, _ => false
         end) xs ys
  | AApp f x, AApp g y => ast_eqb f g && ast_eqb x y
  | AUn o x, AUn p y => Nat.eqb o p && ast_eqb x y
  | ABin o l r, ABin p l' r' => Nat.eqb o p && ast_eqb l l' && ast_eqb r r'
  | ABr x, ABr y => ast_eqb x y
  | _, _ => false
  end.

(* 1 = the real AST is derivable and equals the model print; 2 = derivable but the
   model prints differently; 0 = not derivable from the grammar ladder *)
Definition case_ast (tb : table) (t : pt) (real : ast) : nat :=
  if der tb 0 real then (if ast_eqb (pr tb t) real then 1 else 2) else 0.
