(* ImpSound.v — soundness of the VC generator model, and of the reference interpreter. *)
From Coq Require Import List String Bool ZArith Lia.
Import ListNotations.
From HolpyV Require Import Imp.
Open Scope string_scope.
Open Scope list_scope.

Lemma subst_sem : forall s x e z q,
  eval (alook s) e = Some (VZ z) ->
  eval (alook s) (subst x e q) = eval (alook (aupd s x z)) q.
Proof.
  intros s x e z q He. induction q as [y|n|b|op a IHa|op a IHa b IHb|c IHc a IHa b IHb]; cbn [subst eval].
  - cbn [alook aupd]. destruct (String.eqb y x); [exact He | reflexivity].
  - reflexivity.
  - reflexivity.
  - rewrite IHa. reflexivity.
  - rewrite IHa, IHb. reflexivity.
  - rewrite IHc, IHa, IHb. reflexivity.
Qed.

(* the weakest precondition compute_wp appends to the pre list *)
Fixpoint wpre (c : com) (Q : expr) : expr :=
  match c with
  | CSkip => Q
  | CAssign x e => subst x e Q
  | CSeq c1 c2 => wpre c1 (wpre c2 Q)
  | CCond b c1 c2 => EIte b (wpre c1 Q) (wpre c2 Q)
  | CWhile b inv c => inv
  end.

Lemma a_pre_compute_wp : forall c pre0 Q, a_pre (compute_wp c pre0 Q) = pre0 ++ [wpre c Q].
Proof.
  induction c as [|x e|c1 IH1 c2 IH2|b c1 IH1 c2 IH2|b inv c IH]; intros pre0 Q; cbn [compute_wp a_pre wpre]; try reflexivity.
  - unfold hd_pre. rewrite IH2. cbn [app hd]. rewrite IH1. reflexivity.
  - unfold hd_pre. rewrite IH1, IH2. reflexivity.
Qed.

Lemma hd_pre_compute_wp : forall c Q, hd_pre (compute_wp c [] Q) = wpre c Q.
Proof. intros. unfold hd_pre. rewrite a_pre_compute_wp. reflexivity. Qed.

Definition valid (v : expr) : Prop := forall s, holds s v.

Lemma imp_holds : forall s a b, holds s (e_imp a b) -> holds s a -> holds s b.
Proof.
  unfold holds, e_imp. intros s a b H Ha. cbn [eval] in H. rewrite Ha in H.
  destruct (eval (alook s) b) as [[z|[|]]|]; cbn in H; try discriminate; reflexivity.
Qed.

Lemma vc_step : forall s a b, valid (if expr_eqb a (EBool true) then b else e_imp a b) -> holds s a -> holds s b.
Proof.
  intros s a b H Ha. destruct (expr_eqb a (EBool true)); [apply H | eapply imp_holds; eauto].
Qed.

Lemma last_cons_indep : forall (l : list expr) c a b, last (c :: l) a = last (c :: l) b.
Proof.
  induction l as [|x l IH]; intros c a b; [reflexivity|].
  change (last (c :: x :: l) a) with (last (x :: l) a). change (last (c :: x :: l) b) with (last (x :: l) b). apply IH.
Qed.

(* the chain of verification conditions along a pre/post list *)
Lemma vc_chain : forall l a s, (forall v, In v (vc_list (a :: l)) -> valid v) -> holds s a -> holds s (last l a).
Proof.
  induction l as [|b l IH]; intros a s H Ha; [exact Ha|].
  cbn [vc_list] in H.
  assert (Hb : holds s b) by (eapply vc_step; [apply H; left; reflexivity | exact Ha]).
  change (last (b :: l) a) with (match l with [] => b | _ => last l a end).
  destruct l as [|c l']; [exact Hb|].
  assert (E : last (c :: l') a = last (c :: l') b) by apply last_cons_indep.
  rewrite E. apply IH; [|exact Hb]. intros v Hv. apply H. right. exact Hv.
Qed.

Lemma conj_holds : forall s a b, holds s a -> holds s b -> holds s (e_conj a b).
Proof. unfold holds, e_conj. intros s a b Ha Hb. cbn [eval]. rewrite Ha, Hb. reflexivity. Qed.

Lemma conj_neg_holds : forall s a b, holds s a -> eval (alook s) b = Some (VBo false) -> holds s (e_conj a (e_neg b)).
Proof. unfold holds, e_conj, e_neg. intros s a b Ha Hb. cbn [eval]. rewrite Ha, Hb. reflexivity. Qed.

Lemma exec_skip_inv : forall s s', exec CSkip s s' -> s' = s.
Proof. intros s s' H. inversion H. reflexivity. Qed.
Lemma exec_assign_inv : forall x e s s', exec (CAssign x e) s s' ->
  exists z, eval (alook s) e = Some (VZ z) /\ s' = aupd s x z.
Proof. intros x e s s' H. inversion H; subst. eauto. Qed.
Lemma exec_seq_inv : forall c1 c2 s s', exec (CSeq c1 c2) s s' -> exists s1, exec c1 s s1 /\ exec c2 s1 s'.
Proof. intros c1 c2 s s' H. inversion H; subst. eauto. Qed.
Lemma exec_cond_inv : forall b c1 c2 s s', exec (CCond b c1 c2) s s' ->
  (eval (alook s) b = Some (VBo true) /\ exec c1 s s') \/ (eval (alook s) b = Some (VBo false) /\ exec c2 s s').
Proof. intros b c1 c2 s s' H. inversion H; subst; auto. Qed.

Lemma wp_sound : forall c Q pre0,
  (forall v, In v (vcs (compute_wp c pre0 Q)) -> valid v) ->
  forall s s', exec c s s' -> holds s (wpre c Q) -> holds s' Q.
Proof.
  induction c as [|x e|c1 IH1 c2 IH2|b c1 IH1 c2 IH2|b inv c IH]; intros Q pre0 HV s s' Hex Hw.
  - apply exec_skip_inv in Hex. subst. exact Hw.
  - apply exec_assign_inv in Hex. destruct Hex as [z [He ->]]. cbn [wpre] in Hw. unfold holds in *.
    rewrite <- (subst_sem _ _ _ _ _ He). exact Hw.
  - apply exec_seq_inv in Hex. destruct Hex as [s1 [Hx1 Hx2]]. cbn [wpre] in Hw. cbn [compute_wp vcs] in HV.
    assert (HV2 : forall v, In v (vcs (compute_wp c2 [] Q)) -> valid v)
      by (intros v Hv; apply HV; apply in_or_app; right; apply in_or_app; right; exact Hv).
    assert (HV1 : forall v, In v (vcs (compute_wp c1 [] (wpre c2 Q))) -> valid v).
    { intros v Hv. apply HV. apply in_or_app. right. apply in_or_app. left. rewrite hd_pre_compute_wp. exact Hv. }
    apply (IH2 Q [] HV2 s1 s' Hx2). apply (IH1 (wpre c2 Q) [] HV1 s s1 Hx1). exact Hw.
  - cbn [wpre] in Hw. cbn [compute_wp vcs] in HV. unfold holds in Hw. cbn [eval] in Hw.
    assert (HV1 : forall v, In v (vcs (compute_wp c1 [] Q)) -> valid v)
      by (intros v Hv; apply HV; apply in_or_app; right; apply in_or_app; left; exact Hv).
    assert (HV2 : forall v, In v (vcs (compute_wp c2 [] Q)) -> valid v)
      by (intros v Hv; apply HV; apply in_or_app; right; apply in_or_app; right; exact Hv).
    apply exec_cond_inv in Hex. destruct Hex as [[Hb Hx] | [Hb Hx]]; rewrite Hb in Hw.
    + apply (IH1 Q [] HV1 s s' Hx Hw).
    + apply (IH2 Q [] HV2 s s' Hx Hw).
  - cbn [wpre] in Hw. cbn [compute_wp vcs] in HV.
    assert (Hbody : forall v, In v (vcs (compute_wp c [e_conj inv b] inv)) -> valid v)
      by (intros v Hv; apply HV; apply in_or_app; right; apply in_or_app; left; exact Hv).
    assert (Hpost : valid (e_imp (e_conj inv (e_neg b)) Q)).
    { apply HV. apply in_or_app. right. apply in_or_app. right. cbn. left. reflexivity. }
    assert (Hstep : valid (e_imp (e_conj inv b) (wpre c inv))).
    { apply Hbody. assert (E : exists rest, vcs (compute_wp c [e_conj inv b] inv) = e_imp (e_conj inv b) (wpre c inv) :: rest).
      { pose proof (a_pre_compute_wp c [e_conj inv b] inv) as Ep. cbn [app] in Ep.
        destruct c; cbn [compute_wp vcs a_pre] in *; rewrite ?Ep; cbn [vc_list expr_eqb e_conj app]; eexists; reflexivity. }
      destruct E as [rest ->]. left. reflexivity. }
    remember (CWhile b inv c) as w eqn:Ew. revert Hw.
    induction Hex as [ | | | | |b0 inv0 c0 s0 Hb0|b0 inv0 c0 s0 s1 s2 Hb0 Hx1 IHx1 Hx2 IHx2]; inversion Ew; subst; intros Hw.
    + eapply imp_holds; [apply Hpost|]. apply conj_neg_holds; assumption.
    + apply IHx2; [reflexivity|].
      apply (IH inv [e_conj inv b] Hbody s0 s1 Hx1). eapply imp_holds; [apply Hstep|]. apply conj_holds; assumption.
Qed.

Lemma vcs_pre_incl : forall a v, In v (vc_list (a_pre a)) -> In v (vcs a).
Proof. intros a v H. destruct a; cbn [vcs a_pre] in *; try exact H; apply in_or_app; left; exact H. Qed.

Theorem vcg_sound : forall P c Q,
  (forall v, In v (vcg P c Q) -> valid v) ->
  forall s s', holds s P -> exec c s s' -> holds s' Q.
Proof.
  intros P c Q HV s s' HP Hex. unfold vcg in HV.
  apply (wp_sound c Q [P] HV s s' Hex).
  assert (Hc : forall v, In v (vc_list [P; wpre c Q]) -> valid v).
  { intros v Hv. apply HV. apply vcs_pre_incl. rewrite a_pre_compute_wp. exact Hv. }
  apply (vc_chain [wpre c Q] P s Hc HP).
Qed.

(* the reference interpreter only produces executions of the big-step semantics *)
Theorem run_sound : forall fuel c s s', run fuel c s = Some s' -> exec c s s'.
Proof.
  induction fuel as [|f IH]; intros c s s' H; [discriminate|]. destruct c; cbn [run] in H.
  - inversion H. constructor.
  - destruct (eval (alook s) e) as [[z|b]|] eqn:E; try discriminate. inversion H. constructor. exact E.
  - destruct (run f c1 s) as [s1|] eqn:E1; [|discriminate]. econstructor; eauto.
  - destruct (eval (alook s) b) as [[z|[|]]|] eqn:E; try discriminate; [apply E_CondT | apply E_CondF]; auto.
  - destruct (eval (alook s) b) as [[z|[|]]|] eqn:E; try discriminate.
    + destruct (run f c s) as [s1|] eqn:E1; [|discriminate]. eapply E_WhileT; eauto.
    + inversion H. subst. apply E_WhileF. exact E.
Qed.
