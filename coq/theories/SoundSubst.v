(* SoundSubst.v — soundness of the primitive rule `substitution`
   (Thm.substitution / Term.subst with an Inst) for the repaired model:
   replacements are closed, a var_inst entry is used only at the variable's
   type, and one type instantiation is used for the whole sequent.
   The denotation lemma [subst_rec_sem] is the substitution lemma of the
   finite-table semantics: evaluating the instantiated term = evaluating the
   term under the valuation that sends every instantiated (schematic) variable
   to the value of its replacement. *)
From Coq Require Import List String Bool Arith Lia.
Import ListNotations.
From HolpyV Require Import Kernel KernelLemmas Sem SemLemmas TyMatch Sound.
Open Scope string_scope.
Open Scope list_scope.
Open Scope nat_scope.

(* ------------------------------------------------------------------ *)
(* type matching: a matched pair stays matched by every extension       *)

Lemma ty_subst_nil : forall T, ty_subst [] T = T.
Proof.
  induction T as [n|n|n args IH] using ty_ind'; cbn [ty_subst lookup]; try reflexivity.
  f_equal. induction IH as [|x l Hx Hl IHl]; [reflexivity|]. cbn [map]. rewrite Hx, IHl. reflexivity.
Qed.

Lemma tm_subst_type_nil : forall t, tm_subst_type [] t = t.
Proof.
  induction t as [n T|n T|n T|f IHf a IHa|x T b IHb|k]; cbn [tm_subst_type]; rewrite ?ty_subst_nil, ?IHf, ?IHa, ?IHb; reflexivity.
Qed.

Lemma ty_match_fix : forall p t s, binds s (stvars p) -> ty_subst s p = t -> ty_match_incr p t s = Some s.
Proof.
  induction p as [n|n|n args IH] using ty_ind'; intros t s Hb Hs; cbn [ty_match_incr].
  - cbn [ty_subst] in Hs. specialize (Hb n (or_introl eq_refl)).
    destruct (lookup n s) as [U|] eqn:E; [|congruence]. subst t. rewrite ty_eqb_refl. reflexivity.
  - cbn [ty_subst] in Hs. subst t. rewrite ty_eqb_refl. reflexivity.
  - cbn [ty_subst] in Hs. subst t. rewrite String.eqb_refl. cbn [stvars] in Hb.
    induction IH as [|a args Ha Hargs IHl]; [reflexivity|]. cbn [map].
    rewrite (Ha (ty_subst s a) s); [|intros m Hm; apply Hb; cbn [flat_map]; apply in_or_app; auto | reflexivity].
    apply IHl. intros m Hm. apply Hb. cbn [flat_map]. apply in_or_app. auto.
Qed.

(* ------------------------------------------------------------------ *)
(* the first phase of Term.subst                                        *)

Section Match.
Variable ar : string -> nat.

(* what a successful matching phase establishes for one schematic variable *)
Definition matched (s : tyinst) (iv : list (string * tm)) (n : string) (T : ty) : Prop :=
  forall u, lookup n iv = Some u ->
    is_open u = false /\ exists U, get_type u = Some U /\ binds s (stvars T) /\ ty_subst s T = U.

Lemma matched_extends : forall s s' iv n T, matched s iv n T -> extends s s' -> matched s' iv n T.
Proof.
  intros s s' iv n T H He u Hu. destruct (H u Hu) as [Ho [U [Hg [Hb Hs]]]].
  split; [exact Ho|]. exists U. split; [exact Hg|]. split; [eapply binds_extends; eauto|].
  rewrite (ty_subst_stable s s' T He Hb). exact Hs.
Qed.

Definition repl_types_wf (iv : list (string * tm)) : Prop :=
  forall n u U, lookup n iv = Some u -> get_type u = Some U -> ty_wf ar U = true.

Lemma subst_match_ok : forall svs iv s s',
  (forall n T, In (n, T) svs -> ty_wf ar T = true) -> repl_types_wf iv ->
  subst_match true svs iv s = Some s' ->
  extends s s' /\ forall n T, In (n, T) svs -> matched s' iv n T.
Proof.
  induction svs as [|[m Tm] svs IH]; intros iv s s' Hw Hr H; cbn [subst_match] in H.
  - inversion H; subst. split; [apply extends_refl | intros n T []].
  - destruct (lookup m iv) as [u|] eqn:El.
    + cbn [andb] in H. destruct (is_open u) eqn:Eo; [discriminate|].
      destruct (get_type u) as [U|] eqn:Eg; [|discriminate].
      destruct (ty_match_incr Tm U s) as [s1|] eqn:Em; [|discriminate].
      destruct (ty_match_ok ar Tm U s s1 (Hw m Tm (or_introl eq_refl)) (Hr m u U El Eg) Em) as [He1 [Hb1 Hs1]].
      destruct (IH iv s1 s' (fun n T Hin => Hw n T (or_intror Hin)) Hr H) as [He2 Hall].
      split; [eapply extends_trans; eauto|].
      intros n T [Heq|Hin]; [|apply Hall; exact Hin]. inversion Heq; subst n T.
      apply (matched_extends s1 s'); [|exact He2].
      intros u' Hu'. rewrite El in Hu'. inversion Hu'; subst u'. split; [exact Eo|]. exists U. auto.
    + destruct (IH iv s s' (fun n T Hin => Hw n T (or_intror Hin)) Hr H) as [He2 Hall].
      split; [exact He2|]. intros n T [Heq|Hin]; [|apply Hall; exact Hin]. inversion Heq; subst n T.
      intros u' Hu'. rewrite El in Hu'. discriminate.
Qed.

Lemma subst_match_fix : forall svs iv s,
  (forall n T, In (n, T) svs -> matched s iv n T) -> subst_match true svs iv s = Some s.
Proof.
  induction svs as [|[m Tm] svs IH]; intros iv s H; cbn [subst_match]; [reflexivity|].
  destruct (lookup m iv) as [u|] eqn:El.
  - destruct (H m Tm (or_introl eq_refl) u El) as [Ho [U [Hg [Hb Hs]]]].
    cbn [andb]. rewrite Ho, Hg, (ty_match_fix Tm U s Hb Hs). apply IH. intros n T Hin. apply H. right. exact Hin.
  - apply IH. intros n T Hin. apply H. right. exact Hin.
Qed.

End Match.

(* ------------------------------------------------------------------ *)
(* the substitution lemma                                               *)

Section SubstSem.
Variable DC : string -> list sty -> nat.
Variable thT thS : string -> sty.
Variable IC : string -> sty -> V.
Variable sigV sigS : string -> ty -> V.
Hypothesis IC_ok : ic_ok DC IC.
Hypothesis sigV_ok : val_ok DC thT thS sigV.
Hypothesis sigS_ok : val_ok DC thT thS sigS.

Notation ev := (eval DC thT thS IC sigV sigS).

(* the valuation that sends an instantiated variable, at the type of its
   (closed, well-typed) replacement, to the value of the replacement *)
Definition pick (l : list (string * tm)) (sig : string -> ty -> V) : string -> ty -> V :=
  fun n T =>
    match lookup n l with
    | Some u =>
        match checked_get_type u with
        | Some U => if ty_eqb U T then snd (ev [] u) else sig n T
        | None => sig n T
        end
    | None => sig n T
    end.

Lemma pick_ok : forall l sig, val_ok DC thT thS sig -> val_ok DC thT thS (pick l sig).
Proof.
  intros l sig H n T. unfold pick. destruct (lookup n l) as [u|]; [|apply H].
  destruct (checked_get_type u) as [U|] eqn:E; [|apply H].
  destruct (ty_eqb U T) eqn:Et; [|apply H]. apply ty_eqb_eq in Et. subst U.
  apply (eval_typed DC thT thS IC sigV sigS IC_ok sigV_ok sigS_ok u [] T [] E). constructor.
Qed.

Lemma eval_closed_env : forall t r1 r2, is_open_rec t (List.length r1) = false -> ev (r1 ++ r2) t = ev r1 t.
Proof.
  induction t as [n T|n T|n T|f IHf a IHa|x T b IHb|k]; intros r1 r2 H; cbn [is_open_rec Sem.eval] in *; try reflexivity.
  - apply orb_false_iff in H. destruct H as [H1 H2]. rewrite (IHf _ r2 H1), (IHa _ r2 H2). reflexivity.
  - assert (E : forall l, map (fun v => ev ((tysem thT thS T, v) :: r1 ++ r2) b) l = map (fun v => ev ((tysem thT thS T, v) :: r1) b) l).
    { intro l. apply map_ext. intro v. apply (IHb ((tysem thT thS T, v) :: r1) r2 H). }
    rewrite E. reflexivity.
  - apply Nat.leb_gt in H. apply app_nth1. exact H.
Qed.

(* every replaced schematic variable carries the type of its replacement *)
Fixpoint agree (I : inst) (t : tm) : Prop :=
  match t with
  | SVar n T => match lookup n (i_sv I) with
                | Some u => get_type u = Some T /\ is_open u = false
                | None => True
                end
  | Comb f a => agree I f /\ agree I a
  | Abs _ _ b => agree I b
  | _ => True
  end.

Lemma closed_value : forall u bd T0 T env,
  is_open u = false -> get_type u = Some T0 -> checked_get_type_rec u bd = Some T ->
  T = T0 /\ checked_get_type u = Some T0 /\ ev env u = (tysem thT thS T0, snd (ev [] u)).
Proof.
  intros u bd T0 T env Ho Hg Hc.
  pose proof (checked_closed_ctx u [] bd Ho) as E. cbn [Datatypes.app] in E. rewrite Hc in E. symmetry in E.
  pose proof (checked_is_get _ _ _ E) as Hg'. unfold get_type in Hg. rewrite Hg in Hg'. inversion Hg'; subst T0.
  split; [reflexivity|]. split; [exact E|].
  pose proof (eval_closed_env u [] env Ho) as Ee. cbn [Datatypes.app] in Ee. rewrite Ee.
  destruct (eval_typed DC thT thS IC sigV sigS IC_ok sigV_ok sigS_ok u [] T [] E) as [H1 _]; [constructor|].
  rewrite <- H1. apply surjective_pairing.
Qed.

Lemma subst_rec_sem : forall I t t' bd T env,
  subst_rec true true I t = Some t' -> agree I t -> checked_get_type_rec t' bd = Some T ->
  ev env t' = eval DC thT thS IC (pick (i_var I) sigV) (pick (i_sv I) sigS) env t.
Proof.
  intros I. induction t as [n T0|n T0|n T0|f IHf a IHa|x T0 b IHb|k]; intros t' bd T env H Ha Hc; cbn [subst_rec] in H.
  - cbn [agree] in Ha. cbn [Sem.eval]. unfold pick. destruct (lookup n (i_sv I)) as [u|] eqn:El.
    + inversion H; subst t'. destruct Ha as [Hg Ho].
      destruct (closed_value u bd T0 T env Ho Hg Hc) as [_ [Hck Hev]]. unfold checked_get_type in *.
      rewrite Hck, ty_eqb_refl. exact Hev.
    + inversion H; subst t'. reflexivity.
  - cbn [Sem.eval]. unfold pick. destruct (lookup n (i_var I)) as [u|] eqn:El.
    + cbn [andb] in H. destruct (is_open u) eqn:Eo; [discriminate|].
      destruct (get_type u) as [U|] eqn:Eg; [|discriminate]. destruct (ty_eqb U T0) eqn:Et; [|discriminate].
      apply ty_eqb_eq in Et. subst U. inversion H; subst t'.
      destruct (closed_value u bd T0 T env Eo Eg Hc) as [_ [Hck Hev]]. unfold checked_get_type in *.
      rewrite Hck, ty_eqb_refl. exact Hev.
    + inversion H; subst t'. reflexivity.
  - inversion H; subst t'. reflexivity.
  - destruct (subst_rec true true I f) as [f'|] eqn:Ef; [|discriminate].
    destruct (subst_rec true true I a) as [a'|] eqn:Ea; [|discriminate]. inversion H; subst t'.
    destruct Ha as [Haf Haa]. apply checked_comb in Hc. destruct Hc as [Ta [m [rest [Hcf [_ Hca]]]]].
    cbn [Sem.eval]. rewrite (IHf _ _ _ env eq_refl Haf Hcf), (IHa _ _ _ env eq_refl Haa Hca). reflexivity.
  - destruct (subst_rec true true I b) as [b'|] eqn:Eb; [|discriminate]. inversion H; subst t'.
    cbn [agree] in Ha. cbn [checked_get_type_rec] in Hc.
    destruct (checked_get_type_rec b' (T0 :: bd)) as [Tb|] eqn:Ecb; [|discriminate].
    cbn [Sem.eval].
    assert (E : forall l, map (fun v => ev ((tysem thT thS T0, v) :: env) b') l =
                          map (fun v => eval DC thT thS IC (pick (i_var I) sigV) (pick (i_sv I) sigS) ((tysem thT thS T0, v) :: env) b) l).
    { intro l. apply map_ext. intro v. apply (IHb _ _ _ _ eq_refl Ha Ecb). }
    rewrite E. reflexivity.
  - inversion H; subst t'. reflexivity.
Qed.

End SubstSem.

(* ------------------------------------------------------------------ *)
(* the rule                                                             *)

Lemma agree_of_matched : forall I s0 c,
  (forall n T, In (n, T) (svars_of c) -> matched s0 (i_sv I) n T) ->
  agree I (tm_subst_type s0 c).
Proof.
  intros I s0.
  induction c as [n T|n T|n T|f IHf a IHa|x T b IHb|k]; intros H; cbn [tm_subst_type agree svars_of] in *; auto.
  - destruct (lookup n (i_sv I)) as [u|] eqn:El; [|exact Logic.I].
    destruct (H n T (or_introl eq_refl) u El) as [Ho [U [Hg [_ Hs]]]]. subst U. split; assumption.
  - split; [apply IHf | apply IHa]; intros n T Hin; apply H; apply in_or_app; auto.
Qed.

(* Term.subst as a whole: type matching, type instantiation, replacement *)
Lemma tm_subst_sem : forall DC thT thS IC sigV sigS,
  ic_ok DC IC -> val_ok DC thT thS sigV -> val_ok DC thT thS sigS ->
  forall ar I s c r s' bd T env,
  (forall n U, In (n, U) (svars_of c) -> ty_wf ar U = true) -> repl_types_wf ar (i_sv I) ->
  tm_subst true true I s c = Some (r, s') ->
  checked_get_type_rec r bd = Some T ->
  extends s s' /\ eval DC thT thS IC sigV sigS env r =
  eval DC thT (thS_subst thT thS s') IC
       (fun n U => pick DC thT thS IC sigV sigS (i_var I) sigV n (ty_subst s' U))
       (fun n U => pick DC thT thS IC sigV sigS (i_sv I) sigS n (ty_subst s' U)) env c.
Proof.
  intros DC thT thS IC sigV sigS Hic HV HS ar I s c r s' bd T env Hw Hr H Hc. unfold tm_subst in H.
  destruct (subst_match true (svars_of c) (i_sv I) s) as [s1|] eqn:E; [|discriminate].
  assert (Et : (if is_nil s1 then c else tm_subst_type s1 c) = tm_subst_type s1 c).
  { destruct s1; [cbn [is_nil]; symmetry; apply tm_subst_type_nil | reflexivity]. }
  rewrite Et in H. destruct (subst_rec true true I (tm_subst_type s1 c)) as [r1|] eqn:Er; [|discriminate].
  inversion H; subst r1 s1. clear H.
  destruct (subst_match_ok ar _ _ _ _ Hw Hr E) as [He Hm]. split; [exact He|].
  rewrite (subst_rec_sem DC thT thS IC sigV sigS Hic HV HS I _ _ _ _ env Er (agree_of_matched I s' c Hm) Hc).
  apply eval_subst_type.
Qed.

Section Rule.
Variable DC : string -> list sty -> nat.
Variable IC : string -> sty -> V.
Hypothesis Hstd : Standard DC IC.
Variable fx : fixes.
Hypothesis Hvar : fx_var_inst fx = true.
Hypothesis Hclosed : fx_inst_closed fx = true.
Hypothesis Hpass : fx_subst_pass fx = true.

(* arity discipline on the types that are matched: the types of the schematic
   variables of the sequent and of the replacements (Type.match_incr zips the
   argument lists and silently truncates otherwise) *)
Variable ar : string -> nat.

Definition svar_types_wf (th : thm) : bool :=
  forallb (fun c => forallb (fun p => ty_wf ar (snd p)) (svars_of c)) (hyps th ++ [prop th]).

Definition inst_types_wf (I : inst) : bool :=
  forallb (fun p => match get_type (snd p) with Some U => ty_wf ar U | None => true end) (i_sv I).

Lemma lookup_in : forall (A : Type) n (l : list (string * A)) v, lookup n l = Some v -> In (n, v) l.
Proof.
  intros A n l v. induction l as [|[k w] l IH]; intros H; [discriminate|]. cbn [lookup] in H.
  destruct (String.eqb n k) eqn:E.
  - apply String.eqb_eq in E. subst k. inversion H; subst. left. reflexivity.
  - right. apply IH. exact H.
Qed.

Lemma inst_types_wf_repl : forall I, inst_types_wf I = true -> repl_types_wf ar (i_sv I).
Proof.
  intros I H n u U Hl Hg. unfold inst_types_wf in H. rewrite forallb_forall in H.
  specialize (H (n, u) (lookup_in _ _ _ _ Hl)). cbn [snd] in H. rewrite Hg in H. exact H.
Qed.

Lemma tm_subst_unfold : forall I s c r s',
  tm_subst (fx_var_inst fx) (fx_inst_closed fx) I s c = Some (r, s') ->
  subst_match true (svars_of c) (i_sv I) s = Some s' /\
  subst_rec true true I (tm_subst_type s' c) = Some r.
Proof.
  intros I s c r s' H. unfold tm_subst in H. rewrite Hvar, Hclosed in H.
  destruct (subst_match true (svars_of c) (i_sv I) s) as [s1|] eqn:E; [|discriminate].
  assert (Et : (if is_nil s1 then c else tm_subst_type s1 c) = tm_subst_type s1 c).
  { destruct s1; [cbn [is_nil]; symmetry; apply tm_subst_type_nil | reflexivity]. }
  rewrite Et in H. destruct (subst_rec true true I (tm_subst_type s1 c)) as [r1|] eqn:Er; [|discriminate].
  inversion H; subst. split; [reflexivity | exact Er].
Qed.

(* pass 1: the type instantiation computed over all parts of the sequent
   matches every instantiated schematic variable of every part *)
Lemma pass1 : forall I L s r s0,
  (forall c, In c L -> forall n T, In (n, T) (svars_of c) -> ty_wf ar T = true) -> repl_types_wf ar (i_sv I) ->
  subst_list fx I s L = Some (r, s0) ->
  extends s s0 /\ forall c, In c L -> forall n T, In (n, T) (svars_of c) -> matched s0 (i_sv I) n T.
Proof.
  intros I. induction L as [|c L IH]; intros s r s0 Hw Hr H; cbn [subst_list] in H.
  - inversion H; subst. split; [apply extends_refl | intros c []].
  - destruct (tm_subst (fx_var_inst fx) (fx_inst_closed fx) I s c) as [[c' s1]|] eqn:Ec; [|discriminate].
    destruct (subst_list fx I s1 L) as [[r' s2]|] eqn:El; [|discriminate]. inversion H; subst r s0. clear H.
    destruct (tm_subst_unfold _ _ _ _ _ Ec) as [Em _].
    destruct (subst_match_ok ar _ _ _ _ (Hw c (or_introl eq_refl)) Hr Em) as [He1 Hm1].
    destruct (IH s1 r' s2 (fun c0 Hin => Hw c0 (or_intror Hin)) Hr El) as [He2 Hm2].
    split; [eapply extends_trans; eauto|].
    intros c0 [<-|Hin] n T HnT; [apply (matched_extends s1 s2); auto | apply (Hm2 c0 Hin n T HnT)].
Qed.

(* pass 2: with that instantiation every part is instantiated by subst_rec
   after the type instantiation, and the instantiation does not change *)
Lemma pass2 : forall I s0 L hs s',
  (forall c, In c L -> forall n T, In (n, T) (svars_of c) -> matched s0 (i_sv I) n T) ->
  subst_list fx I s0 L = Some (hs, s') ->
  s' = s0 /\ Forall2 (fun c c' => subst_rec true true I (tm_subst_type s0 c) = Some c') L hs.
Proof.
  intros I s0. induction L as [|c L IH]; intros hs s' Hm H; cbn [subst_list] in H.
  - inversion H; subst. split; [reflexivity | constructor].
  - destruct (tm_subst (fx_var_inst fx) (fx_inst_closed fx) I s0 c) as [[c' s1]|] eqn:Ec; [|discriminate].
    destruct (subst_list fx I s1 L) as [[r' s2]|] eqn:El; [|discriminate]. inversion H; subst hs s'. clear H.
    destruct (tm_subst_unfold _ _ _ _ _ Ec) as [Em Er].
    rewrite (subst_match_fix _ _ _ (Hm c (or_introl eq_refl))) in Em. inversion Em; subst s1.
    destruct (IH r' s2 (fun c0 Hin => Hm c0 (or_intror Hin)) El) as [-> Hf].
    split; [reflexivity | constructor; assumption].
Qed.

Lemma Forall2_in_l : forall (A B : Type) (R : A -> B -> Prop) l1 l2 x, Forall2 R l1 l2 -> In x l1 -> exists y, In y l2 /\ R x y.
Proof.
  intros A B R l1 l2 x H. induction H as [|a b l1 l2 Hab Hl IH]; intros Hin; [destruct Hin|].
  destruct Hin as [<-|Hin]; [exists b; split; [left; reflexivity | exact Hab]|].
  destruct (IH Hin) as [y [Hy Hr]]. exists y. split; [right; exact Hy | exact Hr].
Qed.

Theorem sound_substitution : forall I th th',
  svar_types_wf th = true -> inst_types_wf I = true ->
  valid DC IC th -> r_substitution fx I th = Some th' -> wt th' -> valid DC IC th'.
Proof.
  intros I th th' Hwf Hiwf V H W'. unfold r_substitution in H. rewrite Hpass in H.
  destruct (subst_list fx I (i_ty I) (hyps th ++ [prop th])) as [[r0 s0]|] eqn:E1; [|discriminate].
  destruct (subst_list fx I s0 (hyps th)) as [[hs s']|] eqn:E2; [|discriminate].
  destruct (tm_subst (fx_var_inst fx) (fx_inst_closed fx) I s' (prop th)) as [[p s'']|] eqn:E3; [|discriminate].
  inversion H; subst th'. clear H.
  pose proof (inst_types_wf_repl I Hiwf) as Hr.
  assert (Hw : forall c, In c (hyps th ++ [prop th]) -> forall n T, In (n, T) (svars_of c) -> ty_wf ar T = true).
  { intros c Hc n T HnT. unfold svar_types_wf in Hwf. rewrite forallb_forall in Hwf. specialize (Hwf c Hc).
    rewrite forallb_forall in Hwf. apply (Hwf (n, T) HnT). }
  destruct (pass1 I _ _ _ _ Hw Hr E1) as [_ Hm].
  assert (Hpin : In (prop th) (hyps th ++ [prop th])) by (apply in_or_app; right; left; reflexivity).
  destruct (pass2 I s0 (hyps th) hs s' (fun c Hin => Hm c (in_or_app _ _ _ (or_introl Hin))) E2) as [-> Hf].
  destruct (tm_subst_unfold _ _ _ _ _ E3) as [Em Ep].
  rewrite (subst_match_fix _ _ _ (Hm (prop th) Hpin)) in Em. inversion Em; subst s''. clear Em.
  intros thT thS sigV sigS HV HS Hh. cbn [prop hyps] in *.
  pose proof (st_ok _ _ Hstd) as Hic.
  set (sV := pick DC thT thS IC sigV sigS (i_var I) sigV).
  set (sS := pick DC thT thS IC sigV sigS (i_sv I) sigS).
  assert (HsV : val_ok DC thT thS sV) by (apply pick_ok; assumption).
  assert (HsS : val_ok DC thT thS sS) by (apply pick_ok; assumption).
  (* the instantiated proposition *)
  pose proof (wt_prop _ W') as Tp. cbn [prop] in Tp. unfold checked_get_type in Tp.
  unfold Sem.holds.
  rewrite (subst_rec_sem DC thT thS IC sigV sigS Hic HV HS I _ _ _ _ [] Ep
             (agree_of_matched I s0 _ (Hm (prop th) Hpin)) Tp).
  fold sV. fold sS. rewrite eval_subst_type.
  apply (V thT (thS_subst thT thS s0) (fun n T => sV n (ty_subst s0 T)) (fun n T => sS n (ty_subst s0 T))).
  - intros n T. rewrite <- tysem_subst. apply HsV.
  - intros n T. rewrite <- tysem_subst. apply HsS.
  - intros h Hin. destruct (Forall2_in_l _ _ _ _ _ h Hf Hin) as [h' [Hin' Hh']].
    specialize (Hh h' Hin'). unfold Sem.holds in Hh.
    pose proof (wt_hyp _ h' W' Hin') as Th. unfold checked_get_type in Th.
    rewrite (subst_rec_sem DC thT thS IC sigV sigS Hic HV HS I _ _ _ _ [] Hh'
               (agree_of_matched I s0 _ (Hm h (in_or_app _ _ _ (or_introl Hin)))) Th) in Hh.
    fold sV in Hh. fold sS in Hh. rewrite eval_subst_type in Hh. unfold Sem.holds. exact Hh.
Qed.

End Rule.
