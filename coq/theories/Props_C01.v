(* Props_C01.v — property theorems for C01 (only statements closed by [exact]). *)
From Coq Require Import List String Bool.
Import ListNotations.
From HolpyV Require Import Kernel Sem SemLemmas TyMatch Sound SoundSubst StdModel.

(* Soundness of the primitive rules, one theorem per rule: in every standard
   model (every assignment of finite domains to type variables, every valuation
   of variables and schematic variables), if the premises are well-typed and
   valid and the result passes the checker's typing gate, the result is valid.
   Proved for all 15 primitive rules.  Side conditions that the proofs
   need and the kernel does not enforce on rule arguments are explicit
   hypotheses: [wfc] = the primitive constants "equals", "implies", "all" occur
   at instances of their declared types (theory.check_term enforces this for
   user input; the checker does not re-check rule arguments), and
   [fx_occurs_svar fx = true] = the repaired occurs_var.  For substitution:
   the three repairs of Term.subst / Thm.substitution (closed replacements,
   typed var_inst, one type instantiation for the whole sequent) and an arity
   discipline on the types that are matched (Type.match_incr zips argument
   lists and truncates silently when their lengths differ). *)

Theorem C01_assume_sound : forall DC IC A th, r_assume A = Some th -> valid DC IC th.
Proof. exact sound_assume. Qed.
Print Assumptions C01_assume_sound.

Theorem C01_implies_intr_sound : forall DC IC, Standard DC IC -> forall A th th',
  wt th -> valid DC IC th -> r_implies_intr A th = Some th' -> wt th' -> valid DC IC th'.
Proof. exact sound_implies_intr. Qed.
Print Assumptions C01_implies_intr_sound.

Theorem C01_implies_elim_sound : forall DC IC, Standard DC IC -> forall th1 th2 th',
  wt th1 -> wt th2 -> valid DC IC th1 -> valid DC IC th2 ->
  r_implies_elim th1 th2 = Some th' -> wt th' -> valid DC IC th'.
Proof. exact sound_implies_elim. Qed.
Print Assumptions C01_implies_elim_sound.

Theorem C01_reflexive_sound : forall DC IC, Standard DC IC -> forall x th,
  r_reflexive x = Some th -> wt th -> valid DC IC th.
Proof. exact sound_reflexive. Qed.
Print Assumptions C01_reflexive_sound.

Theorem C01_symmetric_sound : forall DC IC, Standard DC IC -> forall th th',
  wt th -> valid DC IC th -> r_symmetric th = Some th' -> wt th' -> valid DC IC th'.
Proof. exact sound_symmetric. Qed.
Print Assumptions C01_symmetric_sound.

Theorem C01_transitive_sound : forall DC IC, Standard DC IC -> forall th1 th2 th',
  wt th1 -> wt th2 -> valid DC IC th1 -> valid DC IC th2 ->
  r_transitive th1 th2 = Some th' -> wt th' -> valid DC IC th'.
Proof. exact sound_transitive. Qed.
Print Assumptions C01_transitive_sound.

Theorem C01_equal_intr_sound : forall DC IC, Standard DC IC -> forall th1 th2 th',
  wt th1 -> wt th2 -> wfc th1 -> valid DC IC th1 -> valid DC IC th2 ->
  r_equal_intr th1 th2 = Some th' -> wt th' -> valid DC IC th'.
Proof. exact sound_equal_intr. Qed.
Print Assumptions C01_equal_intr_sound.

Theorem C01_equal_elim_sound : forall DC IC, Standard DC IC -> forall th1 th2 th',
  wt th1 -> wt th2 -> valid DC IC th1 -> valid DC IC th2 ->
  r_equal_elim th1 th2 = Some th' -> wt th' -> valid DC IC th'.
Proof. exact sound_equal_elim. Qed.
Print Assumptions C01_equal_elim_sound.

Theorem C01_beta_conv_sound : forall DC IC, Standard DC IC -> forall t th,
  r_beta_conv t = Some th -> wt th -> valid DC IC th.
Proof. exact sound_beta_conv. Qed.
Print Assumptions C01_beta_conv_sound.

Theorem C01_combination_sound : forall DC IC, Standard DC IC -> forall th1 th2 th',
  wt th1 -> wt th2 -> wfc th2 -> valid DC IC th1 -> valid DC IC th2 ->
  r_combination th1 th2 = Some th' -> wt th' -> valid DC IC th'.
Proof. exact sound_combination. Qed.
Print Assumptions C01_combination_sound.

Theorem C01_subst_type_sound : forall DC IC s th th',
  valid DC IC th -> r_subst_type s th = Some th' -> valid DC IC th'.
Proof. exact sound_subst_type. Qed.
Print Assumptions C01_subst_type_sound.

Theorem C01_forall_intr_sound : forall DC IC, Standard DC IC -> forall fx x th th',
  fx_occurs_svar fx = true -> wt th -> valid DC IC th ->
  r_forall_intr fx x th = Some th' -> wt th' -> valid DC IC th'.
Proof. exact sound_forall_intr. Qed.
Print Assumptions C01_forall_intr_sound.

Theorem C01_abstraction_sound : forall DC IC, Standard DC IC -> forall fx x th th',
  fx_occurs_svar fx = true -> wt th -> valid DC IC th ->
  r_abstraction fx x th = Some th' -> wt th' -> valid DC IC th'.
Proof. exact sound_abstraction. Qed.
Print Assumptions C01_abstraction_sound.

Theorem C01_forall_elim_sound : forall DC IC, Standard DC IC -> forall s th th',
  wt th -> wfc th -> valid DC IC th ->
  r_forall_elim s th = Some th' -> wt th' -> valid DC IC th'.
Proof. exact sound_forall_elim. Qed.
Print Assumptions C01_forall_elim_sound.

(* Thm.substitution: instantiation of schematic (type) variables, and of free
   variables through var_inst, by closed terms. *)
Theorem C01_substitution_sound : forall DC IC, Standard DC IC -> forall fx,
  fx_var_inst fx = true -> fx_inst_closed fx = true -> fx_subst_pass fx = true ->
  forall ar I th th',
  svar_types_wf ar th = true -> inst_types_wf ar I = true ->
  valid DC IC th -> r_substitution fx I th = Some th' -> wt th' -> valid DC IC th'.
Proof. exact sound_substitution. Qed.
Print Assumptions C01_substitution_sound.

(* non-vacuity: |- ?P x --> ?P x  with  ?P := %y::'b. y = y  (so '?a := 'b), all side
   conditions hold and the rule produces a well-typed sequent *)
Example C01_substitution_example :
  let a := STVar "a" in let b := TVar "b" in
  let P := SVar "P" (TFun a BoolT) in let x := Var "x" a in
  let imp := Const "implies" (TFun BoolT (TFun BoolT BoolT)) in
  let th := mkThm [] (Comb (Comb imp (Comb P x)) (Comb P x)) in
  let u := Abs "y" b (Comb (Comb (Const "equals" (TFun b (TFun b BoolT))) (Bound 0)) (Bound 0)) in
  let I := mkInst [("P", u)] [] [] [] in
  let ar := fun n : string => if String.eqb n "fun" then 2 else 0 in
  svar_types_wf ar th = true /\ inst_types_wf ar I = true /\
  match r_substitution fixes_on I th with
  | Some th' => check_thm_type th' = true /\ prop th' <> prop th
  | None => False
  end.
Proof. vm_compute. repeat split; discriminate. Qed.

(* non-vacuity of the hypothesis [Standard DC IC] shared by all rule theorems:
   for every assignment of carrier sizes there is a standard model, and in it the
   sequent |- false is not valid (so the theorems above exclude deriving it) *)
Theorem C01_standard_model_exists : forall DC, Standard DC (IC_fix DC).
Proof. exact IC_fix_standard. Qed.
Print Assumptions C01_standard_model_exists.

Example C01_false_not_valid : forall DC, ~ valid DC (IC_fix DC) (mkThm [] (Const "false" BoolT)).
Proof.
  intros DC H.
  set (sig := fun (_ : string) (T : ty) => other0 DC "" (tysem (fun _ => SB) (fun _ => SB) T)).
  assert (Hv : val_ok DC (fun _ => SB) (fun _ => SB) sig) by (intros n T; apply other0_ok).
  specialize (H (fun _ => SB) (fun _ => SB) sig sig Hv Hv (fun h Hin => match Hin with end)).
  vm_compute in H. discriminate.
Qed.
