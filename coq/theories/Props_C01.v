(* Props_C01.v — property theorems for C01 (only statements closed by [exact]). *)
From Coq Require Import List String Bool.
Import ListNotations.
From HolpyV Require Import Kernel Sem SemLemmas Sound.

(* Soundness of the primitive rules, one theorem per rule: in every standard
   model (every assignment of finite domains to type variables, every valuation
   of variables and schematic variables), if the premises are well-typed and
   valid and the result passes the checker's typing gate, the result is valid.
   PARTIAL with respect to C01: proved for assume, implies_intr, implies_elim,
   reflexive, symmetric, transitive, equal_intr (for "implies" at its declared
   type), equal_elim and beta_conv; combination, abstraction, forall_intr,
   forall_elim, subst_type and substitution are decided by correspondence and
   finite-model search only in this build (see evidence: theorems_planned_missing). *)

Theorem C01_assume_sound : forall DC IC A th, r_assume A = Some th -> valid DC IC th.
Proof. exact sound_assume. Qed.
Print Assumptions C01_assume_sound.

Theorem C01_implies_intr_sound : forall DC IC, Standard DC IC -> forall A th th',
  wt th -> valid DC IC th -> r_implies_intr A th = Some th' -> wt th' -> valid DC IC th'.
Proof. exact sound_implies_intr. Qed.
Print Assumptions C01_implies_intr_sound.

Theorem C01_implies_elim_sound : forall DC IC, Standard DC IC -> forall th1 th2 th',
  wt th1 -> wt th2 -> valid DC IC th1 -> valid DC IC th2 ->
  r_implies_elim th1 th2 = Some th' -> wt th' -> valid DC IC th'.
Proof. exact sound_implies_elim. Qed.
Print Assumptions C01_implies_elim_sound.

Theorem C01_reflexive_sound : forall DC IC, Standard DC IC -> forall x th,
  r_reflexive x = Some th -> wt th -> valid DC IC th.
Proof. exact sound_reflexive. Qed.
Print Assumptions C01_reflexive_sound.

Theorem C01_symmetric_sound : forall DC IC, Standard DC IC -> forall th th',
  wt th -> valid DC IC th -> r_symmetric th = Some th' -> wt th' -> valid DC IC th'.
Proof. exact sound_symmetric. Qed.
Print Assumptions C01_symmetric_sound.

Theorem C01_transitive_sound : forall DC IC, Standard DC IC -> forall th1 th2 th',
  wt th1 -> wt th2 -> valid DC IC th1 -> valid DC IC th2 ->
  r_transitive th1 th2 = Some th' -> wt th' -> valid DC IC th'.
Proof. exact sound_transitive. Qed.
Print Assumptions C01_transitive_sound.

Theorem C01_equal_intr_sound : forall DC IC, Standard DC IC -> forall th1 th2 th',
  wt th1 -> wt th2 -> wfc th1 -> valid DC IC th1 -> valid DC IC th2 ->
  r_equal_intr th1 th2 = Some th' -> wt th' -> valid DC IC th'.
Proof. exact sound_equal_intr. Qed.
Print Assumptions C01_equal_intr_sound.

Theorem C01_equal_elim_sound : forall DC IC, Standard DC IC -> forall th1 th2 th',
  wt th1 -> wt th2 -> valid DC IC th1 -> valid DC IC th2 ->
  r_equal_elim th1 th2 = Some th' -> wt th' -> valid DC IC th'.
Proof. exact sound_equal_elim. Qed.
Print Assumptions C01_equal_elim_sound.

Theorem C01_beta_conv_sound : forall DC IC, Standard DC IC -> forall t th,
  r_beta_conv t = Some th -> wt th -> valid DC IC th.
Proof. exact sound_beta_conv. Qed.
Print Assumptions C01_beta_conv_sound.
