(* AletheRes.v — model of ThResolutionMacro.eval with resolve_order / try_resolve
   (smt/veriT/verit_macro.py): the premises are cut into clauses of the stated
   sizes, duplicates inside a clause are removed, a clause equal to its predecessor
   is dropped, and while more than one clause remains the first pair (in the order
   of the remaining list) that has complementary literals is resolved -- the
   resolvent replaces the clause that held the positive literal, the other one is
   removed.  The clause left at the head of the remaining list must be a subset of
   the stated conclusion.  Literals are compared as terms (an atom under n
   negations against the same atom under n + 1).  Definitions only. *)
From Coq Require Import List String Bool Arith.
Import ListNotations.
From HolpyV Require Import TruthTable Alethe Alethe2.
Open Scope list_scope.

Inductive dir := DLeft | DRight.

(* try_resolve: first (i, j) in lexicographic order with prop2[j] = ~prop1[i] ('left')
   or prop1[i] = ~prop2[j] ('right') *)
Fixpoint find_j (a : pf) (p2 : list pf) (j : nat) : option (dir * nat) :=
  match p2 with
  | [] => None
  | b :: p2' =>
      if pf_eqb (PNot a) b then Some (DLeft, j)
      else if pf_eqb a (PNot b) then Some (DRight, j)
      else find_j a p2' (S j)
  end.

Fixpoint try_resolve (p1 p2 : list pf) (i : nat) : option (dir * nat * nat) :=
  match p1 with
  | [] => None
  | a :: p1' =>
      match find_j a p2 0 with
      | Some (d, j) => Some (d, i, j)
      | None => try_resolve p1' p2 (S i)
      end
  end.

Fixpoint remove_at (n : nat) (l : list pf) : list pf :=
  match l, n with
  | [], _ => []
  | _ :: l', 0 => l'
  | x :: l', S n' => x :: remove_at n' l'
  end.

(* for t in ...: if t not in res_list: res_list.append(t) *)
Fixpoint add_new (acc l : list pf) : list pf :=
  match l with
  | [] => acc
  | t :: l' => if mem_pf t acc then add_new acc l' else add_new (acc ++ [t]) l'
  end.

Definition clause_at (props : list (list pf)) (i : nat) : list pf := nth i props [].

Fixpoint set_nth (n : nat) (c : list pf) (props : list (list pf)) : list (list pf) :=
  match props, n with
  | [], _ => []
  | _ :: ps, 0 => c :: ps
  | p :: ps, S n' => p :: set_nth n' c ps
  end.

(* the pair found by the double loop over id_remain, already oriented:
   (clause that keeps its place, clause that is removed, index in the first, index in the second) *)
Fixpoint find_pair_j (props : list (list pf)) (id1 : nat) (rest : list nat) : option (nat * nat * nat * nat) :=
  match rest with
  | [] => None
  | id2 :: rest' =>
      match try_resolve (clause_at props id1) (clause_at props id2) 0 with
      | Some (DLeft, i, j) => Some (id1, id2, i, j)
      | Some (DRight, i, j) => Some (id2, id1, j, i)
      | None => find_pair_j props id1 rest'
      end
  end.

Fixpoint find_pair (props : list (list pf)) (remain : list nat) : option (nat * nat * nat * nat) :=
  match remain with
  | [] => None
  | id1 :: rest =>
      match find_pair_j props id1 rest with
      | Some r => Some r
      | None => find_pair props rest
      end
  end.

Fixpoint remove_first (x : nat) (l : list nat) : list nat :=
  match l with
  | [] => []
  | y :: l' => if Nat.eqb x y then l' else y :: remove_first x l'
  end.

Definition resolvent (props : list (list pf)) (a b ta tb : nat) : list pf :=
  add_new (remove_at ta (clause_at props a)) (remove_at tb (clause_at props b)).

(* the while loop; one clause leaves id_remain per round, so length remain rounds suffice *)
Fixpoint res_loop (fuel : nat) (props : list (list pf)) (remain : list nat) : list (list pf) * list nat :=
  match fuel with
  | 0 => (props, remain)
  | S f =>
      match remain with
      | [] | [_] => (props, remain)
      | _ =>
          match find_pair props remain with
          | None => (props, remain)
          | Some (a, b, ta, tb) =>
              res_loop f (set_nth a (resolvent props a b ta tb) props) (remove_first b remain)
          end
      end
  end.

(* id_remain at the start: i = 0, or the clause differs from its predecessor *)
Fixpoint initial_remain (prev : option (list pf)) (props : list (list pf)) (i : nat) : list nat :=
  match props with
  | [] => []
  | p :: ps =>
      let keep := match prev with None => true | Some q => negb (pf_list_eqb p q) end in
      (if keep then [i] else []) ++ initial_remain (Some p) ps (S i)
  end.

Definition resolve_order (prems : list (list pf)) : option (list pf) :=
  let props := map (dedup_acc []) prems in
  let remain := initial_remain None props 0 in
  let '(props', remain') := res_loop (List.length remain) props remain in
  match remain' with
  | [] => None                         (* id_remain[0] on an empty list *)
  | i :: _ => nth_error props' i       (* always in range: the ids are positions of props *)
  end.

Fixpoint strip_all (sizes : list nat) (prems : list pf) : option (list (list pf)) :=
  match sizes, prems with
  | [], [] => Some []
  | n :: sizes', p :: prems' =>
      match strip_disj_n p n, strip_all sizes' prems' with
      | Some c, Some cs => Some (c :: cs)
      | _, _ => None
      end
  | _, _ => None
  end.

Definition special_not_true (cl prems : list pf) : bool :=
  match cl, prems with
  | [], [PNot PTrue] => true
  | _, _ => false
  end.

(* from A and ~~A <--> B conclude B *)
Definition special_double_neg (cl prems : list pf) : bool :=
  match cl, prems with
  | [c], [p0; PIff (PNot (PNot x)) r] => pf_eqb x p0 && pf_eqb c r
  | _, _ => false
  end.

Definition concl_ok (concl cl : list pf) : bool :=
  forallb (fun x => mem_pf x cl) concl
  || match concl, cl with
     | [c0], [c] => pf_eqb (PNot (PNot c0)) c
     | _, _ => false
     end.

Definition accept_res (cl : list pf) (sizes : list nat) (prems : list pf) : option pf :=
  if negb (Nat.eqb (List.length sizes) (List.length prems)) then None
  else if special_not_true cl prems then Some (mk_or cl)
  else if special_double_neg cl prems then Some (mk_or cl)
  else match strip_all sizes prems with
       | None => None
       | Some clauses =>
           match resolve_order clauses with
           | None => None
           | Some concl => if concl_ok concl cl then Some (mk_or cl) else None
           end
       end.
