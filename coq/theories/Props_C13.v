(* Props_C13.v — property theorems for C13. *)
From Coq Require Import List String Bool Arith.
Import ListNotations.
From HolpyV Require Import Kernel Check Edit EditSound.
Open Scope string_scope.
Open Scope list_scope.
Open Scope nat_scope.

(* Renumbering after inserting n lines before `start` is monotone on line
   identifiers: every citation that the dependency rule allowed before the
   insertion is still allowed after both its ends have been renumbered — for all
   identifiers, at every nesting depth.  (PARTIAL w.r.t. C13: the structural
   operations are modelled and tied to server/method.py by exact correspondence;
   well-numberedness of their results and the behavioural invariants of the
   ~25 methods are validated per instance / explored.) *)
Theorem C13_can_depend_on_incr : forall a b s n, s <> [] ->
  can_depend_on a b = true -> can_depend_on (incr_id_after a s n) (incr_id_after b s n) = true.
Proof. exact can_depend_on_incr. Qed.
Print Assumptions C13_can_depend_on_incr.

(* characterisation of the dependency rule used throughout *)
Theorem C13_can_depend_on_spec : forall a b, can_depend_on a b = true <->
  exists l1, List.length b = S l1 /\ S l1 <= List.length a /\ agree l1 b a /\ nth l1 b 0 < nth l1 a 0.
Proof. exact can_depend_on_spec. Qed.
Print Assumptions C13_can_depend_on_spec.

(* Non-vacuity: inserting a line keeps a small nested proof well numbered. *)
Example C13_insert_example :
  let prf := [Item [0] "assume" ANone [] None None;
              Item [1] "subproof" ANone [] None (Some [Item [1;0] "assume" ANone [] None None;
                                                      Item [1;1] "implies_intr" ANone [[1;0]; [0]] None None]);
              Item [2] "implies_elim" ANone [[1]; [0]] None None] in
  match add_line_before prf [1] 2 with
  | Some p => well_numbered prf && well_numbered p
  | None => false
  end = true.
Proof. vm_compute. reflexivity. Qed.
