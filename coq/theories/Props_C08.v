(* Props_C08.v — property theorems for C08 (only statements closed by [exact]). *)
From Coq Require Import List String Bool Arith.
Import ListNotations.
From HolpyV Require Import Kernel TyMatch InferCheck.

(* The checker applied to every result of type_infer decides exactly what the
   property demands: whenever it answers true, the returned term has the shape of
   the skeleton with every given annotation kept, type-checks, gives all
   occurrences of a variable one type, respects the declared variable types,
   uses every constant at an instance of its declared type and contains no
   internal type variable.  (translation validation: the inference algorithm
   itself is not modelled.) *)
Theorem C08_checker_sound : forall sig ctxV ctxS k t,
  infer_ok sig ctxV ctxS k t = true -> infer_spec sig ctxV ctxS k t.
Proof. exact infer_ok_sound. Qed.
Print Assumptions C08_checker_sound.

(* with every annotation given, the only term of that shape is the original *)
Theorem C08_full_annotation_determines : forall t u, shape (erase_to true true true t) u -> u = t.
Proof. exact shape_full_annot. Qed.
Print Assumptions C08_full_annotation_determines.

Example C08_example :
  let B := BoolT in
  infer_ok (fun n => if String.eqb n "equals" then Some (TFun (STVar "a") (TFun (STVar "a") B)) else None)
           [("x", B)] []
           (KComb (KComb (KConst "equals" None) (KVar "x" None)) (KVar "y" None))
           (Comb (Comb (Const "equals" (TFun B (TFun B B))) (Var "x" B)) (Var "y" B)) = true.
Proof. vm_compute. reflexivity. Qed.
