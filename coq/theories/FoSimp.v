(* FoSimp.v — model of prover/fologic.py simplify / simplify1 (the last stage of z3wrapper.norm_term:
   removal of the constants true and false) on the quantifier-free propositional skeleton of a
   formula.  Atoms are the sub-terms that are not negations, conjunctions, disjunctions,
   implications, boolean equalities, true or false (quantified formulas are outside this model).
   Definitions only. *)
From Coq Require Import List Bool.
Import ListNotations.
From HolpyV Require Import Kernel.

Inductive sform : Type :=
  | SAtom (t : tm)
  | STrue
  | SFalse
  | SNot (f : sform)
  | SAnd (f g : sform)
  | SOr (f g : sform)
  | SImp (f g : sform)
  | SIff (f g : sform).

Definition is_true (f : sform) : bool := match f with STrue => true | _ => false end.
Definition is_false (f : sform) : bool := match f with SFalse => true | _ => false end.

(* simplify1: one step at the root, the sub-formulas being simplified already *)
Definition simplify1 (f : sform) : sform :=
  match f with
  | SNot a => if is_false a then STrue else if is_true a then SFalse else match a with SNot b => b | _ => f end
  | SAnd a b => if is_false a || is_false b then SFalse else if is_true a then b else if is_true b then a else f
  | SOr a b => if is_true a || is_true b then STrue else if is_false a then b else if is_false b then a else f
  | SImp a b => if is_false a || is_true b then STrue else if is_true a then b else if is_false b then SNot a else f
  | SIff a b => if is_true a then b else if is_true b then a else if is_false a then SNot b else if is_false b then SNot a else f
  | _ => f
  end.

Fixpoint simplify (f : sform) : sform :=
  match f with
  | SNot a => simplify1 (SNot (simplify a))
  | SAnd a b => simplify1 (SAnd (simplify a) (simplify b))
  | SOr a b => simplify1 (SOr (simplify a) (simplify b))
  | SImp a b => simplify1 (SImp (simplify a) (simplify b))
  | SIff a b => simplify1 (SIff (simplify a) (simplify b))
  | _ => f
  end.

Fixpoint seval (v : tm -> bool) (f : sform) : bool :=
  match f with
  | SAtom t => v t
  | STrue => true
  | SFalse => false
  | SNot a => negb (seval v a)
  | SAnd a b => seval v a && seval v b
  | SOr a b => seval v a || seval v b
  | SImp a b => implb (seval v a) (seval v b)
  | SIff a b => Bool.eqb (seval v a) (seval v b)
  end.

(* no constant true / false anywhere *)
Fixpoint const_free (f : sform) : bool :=
  match f with
  | SAtom _ => true
  | STrue | SFalse => false
  | SNot a => const_free a
  | SAnd a b | SOr a b | SImp a b | SIff a b => const_free a && const_free b
  end.

Fixpoint sform_eqb (f g : sform) : bool :=
  match f, g with
  | SAtom s, SAtom t => tm_eqb s t
  | STrue, STrue | SFalse, SFalse => true
  | SNot a, SNot b => sform_eqb a b
  | SAnd a b, SAnd c d | SOr a b, SOr c d | SImp a b, SImp c d | SIff a b, SIff c d => sform_eqb a c && sform_eqb b d
  | _, _ => false
  end.

Definition case_simplify (f expected : sform) : nat := if sform_eqb (simplify f) expected then 1 else 0.
