(* Sound.v — soundness of the primitive rules of the kernel model with respect
   to the finite-table standard semantics. *)
From Coq Require Import List String Bool Arith Lia.
Import ListNotations.
From HolpyV Require Import Kernel KernelLemmas Sem SemLemmas.
Open Scope string_scope.
Open Scope list_scope.
Open Scope nat_scope.

Section Sound.
Variable DC : string -> list sty -> nat.
Notation dom := (dom DC).

(* A standard model interprets equality, implication and the universal
   quantifier by their truth tables at every semantic type of the right shape
   (equality also between different semantic types: structural equality of
   values, which is what the kernel's heterogeneous uses of "equals" need), and
   every constant by an element of the domain of its type. *)
Record Standard (IC : string -> sty -> V) : Prop := {
  st_ok : ic_ok DC IC;
  st_eq : forall a b, IC "equals" (SF a (SF b SB)) = tab2 DC a b (fun x y => VB (V_eqb x y));
  st_imp : IC "implies" (SF SB (SF SB SB)) = tab2 DC SB SB (fun x y => VB (implb (vb x) (vb y)));
  st_all : forall a, IC "all" (SF (SF a SB) SB) =
                     tab1 DC (SF a SB) (fun f => VB (forallb (fun x => vb (vapp DC a f x)) (dom a)))
}.

Variable IC : string -> sty -> V.
Hypothesis Hstd : Standard IC.

(* truth of a sequent in one model / validity in all models *)
Definition models (thT thS : string -> sty) (sigV sigS : string -> ty -> V) (th : thm) : Prop :=
  (forall h, In h (hyps th) -> holds DC thT thS IC sigV sigS h = true) ->
  holds DC thT thS IC sigV sigS (prop th) = true.

Definition valid (th : thm) : Prop :=
  forall thT thS sigV sigS, val_ok DC thT thS sigV -> val_ok DC thT thS sigS -> models thT thS sigV sigS th.

Lemma valid_thm_holds : forall th, valid th <->
  forall thT thS sigV sigS, val_ok DC thT thS sigV -> val_ok DC thT thS sigS -> thm_holds DC thT thS IC sigV sigS th = true.
Proof.
  intros th. unfold valid, models, thm_holds. split; intros H thT thS sigV sigS HV HS.
  - destruct (forallb (holds DC thT thS IC sigV sigS) (hyps th)) eqn:E; [|reflexivity]. cbn.
    apply H; auto. intros h Hh. rewrite forallb_forall in E. auto.
  - intros Hh. specialize (H thT thS sigV sigS HV HS).
    assert (E : forallb (holds DC thT thS IC sigV sigS) (hyps th) = true) by (apply forallb_forall; auto).
    rewrite E in H. exact H.
Qed.

Definition wt (th : thm) : Prop := check_thm_type th = true.

Lemma wt_prop : forall th, wt th -> checked_get_type (prop th) = Some BoolT.
Proof.
  intros th H. unfold wt, check_thm_type in H. rewrite forallb_app in H. apply andb_true_iff in H.
  destruct H as [_ H]. cbn in H. rewrite andb_true_r in H. unfold is_bool_ty in H.
  destruct (checked_get_type (prop th)); [|discriminate]. apply ty_eqb_eq in H. subst. reflexivity.
Qed.

Lemma wt_hyp : forall th h, wt th -> In h (hyps th) -> checked_get_type h = Some BoolT.
Proof.
  intros th h H Hin. unfold wt, check_thm_type in H. rewrite forallb_app in H. apply andb_true_iff in H.
  destruct H as [H _]. rewrite forallb_forall in H. specialize (H h Hin). unfold is_bool_ty in H.
  destruct (checked_get_type h); [|discriminate]. apply ty_eqb_eq in H. subst. reflexivity.
Qed.

(* ---------------------------------------------------------------- *)
(* typing is invariant under alpha                                    *)

Lemma checked_alpha : forall s t bd, tm_eqb s t = true -> checked_get_type_rec s bd = checked_get_type_rec t bd.
Proof.
  induction s as [n T|n T|n T|f IHf a IHa|x T b IHb|k]; destruct t as [m U|m U|m U|g c|y U c|j];
    intros bd H; cbn [tm_eqb] in H; try discriminate.
  - apply andb_true_iff in H. destruct H as [_ H]. apply ty_eqb_eq in H. subst. reflexivity.
  - apply andb_true_iff in H. destruct H as [_ H]. apply ty_eqb_eq in H. subst. reflexivity.
  - apply andb_true_iff in H. destruct H as [_ H]. apply ty_eqb_eq in H. subst. reflexivity.
  - apply andb_true_iff in H. destruct H as [H1 H2]. cbn [checked_get_type_rec]. rewrite (IHf g bd H1), (IHa c bd H2). reflexivity.
  - apply andb_true_iff in H. destruct H as [H1 H2]. apply ty_eqb_eq in H1. subst. cbn [checked_get_type_rec].
    rewrite (IHb c _ H2). reflexivity.
  - apply Nat.eqb_eq in H. subst. reflexivity.
Qed.

Lemma checked_comb : forall f a bd R,
  checked_get_type_rec (Comb f a) bd = Some R ->
  exists Ta n rest, checked_get_type_rec f bd = Some (TConst n (Ta :: R :: rest)) /\
                    String.eqb n "fun" = true /\ checked_get_type_rec a bd = Some Ta.
Proof.
  intros f a bd R H. cbn [checked_get_type_rec] in H.
  destruct (checked_get_type_rec f bd) as [Tf|]; [|discriminate].
  destruct (checked_get_type_rec a bd) as [Ta|]; [|discriminate].
  destruct (is_fun_name Tf) eqn:Efun; [|discriminate].
  destruct Tf as [m|m|m [|d [|r rest]]]; try discriminate.
  - destruct (ty_eqb d Ta); discriminate.
  - destruct (ty_eqb d Ta) eqn:Ed; [|discriminate]. apply ty_eqb_eq in Ed. subst. inversion H; subst.
    exists Ta, m, rest. cbn in Efun. auto.
Qed.

Lemma checked_is_get : forall t bd T, checked_get_type_rec t bd = Some T -> get_type_rec t bd = Some T.
Proof.
  induction t as [n U|n U|n U|f IHf a IHa|x U b IHb|k]; intros bd T H; cbn [get_type_rec]; cbn [checked_get_type_rec] in H; try exact H.
  - apply checked_comb in H. destruct H as [Ta [n [rest [Hf [Hn Ha]]]]].
    rewrite (IHf _ _ Hf). cbn [is_fun_name]. rewrite Hn. reflexivity.
  - destruct (checked_get_type_rec b (U :: bd)) as [Tb|] eqn:E; [|discriminate]. rewrite (IHb _ _ E). exact H.
Qed.

Section InModel.
Variable thT thS : string -> sty.
Variable sigV sigS : string -> ty -> V.
Hypothesis sigV_ok : val_ok DC thT thS sigV.
Hypothesis sigS_ok : val_ok DC thT thS sigS.
Notation tysem := (tysem thT thS).
Notation eval := (eval DC thT thS IC sigV sigS).
Notation holds := (holds DC thT thS IC sigV sigS).
Notation env_ok := (env_ok DC thT thS).

Lemma eval_ty : forall t bd T env, checked_get_type_rec t bd = Some T -> env_ok env bd ->
  fst (eval env t) = tysem T /\ In (snd (eval env t)) (dom (tysem T)).
Proof. intros. eapply eval_typed; eauto. apply (st_ok _ Hstd). Qed.

Lemma tysem_bool : tysem BoolT = SB.
Proof. reflexivity. Qed.

Lemma tysem_TFun : forall A B, tysem (TFun A B) = SF (tysem A) (tysem B).
Proof. reflexivity. Qed.

Lemma in_dom_SB : forall v, In v (dom SB) -> v = VB true \/ v = VB false.
Proof. intros v [H|[H|[]]]; auto. Qed.

Lemma eval_comb : forall f a bd R env, checked_get_type_rec (Comb f a) bd = Some R -> env_ok env bd ->
  exists Ta, checked_get_type_rec a bd = Some Ta /\ fst (eval env f) = SF (tysem Ta) (tysem R) /\
             eval env (Comb f a) = (tysem R, app DC (snd (eval env f)) (snd (eval env a)) (tysem Ta)).
Proof.
  intros f a bd R env H Henv. apply checked_comb in H. destruct H as [Ta [n [rest [Hf [Hn Ha]]]]].
  exists Ta. split; [exact Ha|].
  destruct (eval_ty _ _ _ _ Hf Henv) as [Hf1 _]. rewrite (tysem_fun _ _ _ _ _ _ Hn) in Hf1.
  split; [exact Hf1|]. cbn [Sem.eval]. destruct (eval env f) as [sf vf]. destruct (eval env a) as [sa va].
  cbn [fst snd] in *. subst sf. reflexivity.
Qed.

(* meaning of a well-typed binary application of a constant *)
Lemma eval_binop : forall n T x y bd R env,
  checked_get_type_rec (Comb (Comb (Const n T) x) y) bd = Some R -> env_ok env bd ->
  exists Tx Ty, checked_get_type_rec x bd = Some Tx /\ checked_get_type_rec y bd = Some Ty /\
    tysem T = SF (tysem Tx) (SF (tysem Ty) (tysem R)) /\
    snd (eval env (Comb (Comb (Const n T) x) y)) =
      app DC (app DC (IC n (tysem T)) (snd (eval env x)) (tysem Tx)) (snd (eval env y)) (tysem Ty).
Proof.
  intros n T x y bd R env H Henv.
  destruct (eval_comb _ _ _ _ _ H Henv) as [Ty [Hy [Hf E]]].
  pose proof H as H'. apply checked_comb in H'. destruct H' as [Ty' [m [rest [Hfx [Hm Hy']]]]].
  rewrite Hy in Hy'. inversion Hy'; subst Ty'.
  destruct (eval_comb _ _ _ _ _ Hfx Henv) as [Tx [Hx [Hc E2]]].
  exists Tx, Ty. split; [exact Hx|]. split; [exact Hy|].
  cbn [Sem.eval fst] in Hc. rewrite (tysem_fun _ _ _ _ _ _ Hm) in Hc. split; [exact Hc|].
  rewrite E. cbn [snd]. rewrite E2. cbn [snd]. reflexivity.
Qed.

Lemma holds_iff : forall t, holds t = true <-> snd (eval [] t) = VB true.
Proof. intro t. unfold Sem.holds. apply V_eqb_eq. Qed.

Lemma env_ok_nil : env_ok [] [].
Proof. constructor. Qed.

(* equality *)
Lemma holds_eq : forall T x y, checked_get_type (Comb (Comb (Const "equals" T) x) y) = Some BoolT ->
  holds (Comb (Comb (Const "equals" T) x) y) = V_eqb (snd (eval [] x)) (snd (eval [] y)).
Proof.
  intros T x y H. destruct (eval_binop _ _ _ _ _ _ _ H env_ok_nil) as [Tx [Ty [Hx [Hy [HT E]]]]].
  unfold Sem.holds. rewrite E, HT. rewrite tysem_bool. rewrite (st_eq _ Hstd).
  destruct (eval_ty _ _ _ _ Hx env_ok_nil) as [_ Hvx]. destruct (eval_ty _ _ _ _ Hy env_ok_nil) as [_ Hvy].
  unfold tab2, tab1. rewrite (app_tabulate DC _ _ _ Hvx). rewrite (app_tabulate DC _ _ _ Hvy).
  cbn [V_eqb]. destruct (V_eqb (snd (eval [] x)) (snd (eval [] y))); reflexivity.
Qed.

(* implication *)
Lemma holds_imp : forall T x y, checked_get_type (Comb (Comb (Const "implies" T) x) y) = Some BoolT ->
  checked_get_type x = Some BoolT -> checked_get_type y = Some BoolT ->
  holds (Comb (Comb (Const "implies" T) x) y) = implb (holds x) (holds y).
Proof.
  intros T x y H Hx Hy. destruct (eval_binop _ _ _ _ _ _ _ H env_ok_nil) as [Tx [Ty [Hx' [Hy' [HT E]]]]].
  unfold checked_get_type in *. rewrite Hx in Hx'. rewrite Hy in Hy'. inversion Hx'; inversion Hy'; subst Tx Ty.
  unfold Sem.holds at 1. rewrite E, HT. rewrite !tysem_bool. rewrite (st_imp _ Hstd).
  destruct (eval_ty _ _ _ _ Hx env_ok_nil) as [_ Hvx]. destruct (eval_ty _ _ _ _ Hy env_ok_nil) as [_ Hvy].
  rewrite tysem_bool in Hvx, Hvy.
  unfold tab2, tab1. rewrite (app_tabulate DC _ _ _ Hvx). rewrite (app_tabulate DC _ _ _ Hvy).
  unfold Sem.holds. apply in_dom_SB in Hvx. apply in_dom_SB in Hvy.
  destruct Hvx as [-> | ->]; destruct Hvy as [-> | ->]; reflexivity.
Qed.

Lemma checked_mk_implies : forall A B, checked_get_type (mk_implies A B) = Some BoolT ->
  checked_get_type A = Some BoolT /\ checked_get_type B = Some BoolT.
Proof.
  intros A B H. unfold mk_implies, checked_get_type in *.
  apply checked_comb in H. destruct H as [TB [n [rest [H [Hn HB]]]]].
  apply checked_comb in H. destruct H as [TA [n' [rest' [H [Hn' HA]]]]].
  cbn [checked_get_type_rec implies_const] in H. unfold TFun in H. inversion H; subst. auto.
Qed.

Lemma holds_alpha : forall s t, tm_eqb s t = true -> holds s = holds t.
Proof. intros s t H. unfold Sem.holds. rewrite (eval_alpha DC thT thS IC sigV sigS s t [] H). reflexivity. Qed.

Lemma holds_mem : forall h l, mem_tm h l = true -> (forall x, In x l -> holds x = true) -> holds h = true.
Proof.
  intros h l Hm Hl. apply mem_tm_spec in Hm. destruct Hm as [x [Hin He]]. rewrite (holds_alpha _ _ He). auto.
Qed.

Lemma vb_eqb : forall v, vb v = V_eqb v (VB true).
Proof. destruct v as [[]| | |]; reflexivity. Qed.

Lemma forallb_ext_in : forall (A : Type) (f g : A -> bool) l, (forall x, In x l -> f x = g x) -> forallb f l = forallb g l.
Proof.
  intros A f g l. induction l as [|x l IH]; intro H; [reflexivity|]. cbn [forallb].
  rewrite (H x (or_introl eq_refl)), IH; [reflexivity|]. intros y Hy. apply H. right. exact Hy.
Qed.

(* the universal quantifier at its declared type *)
Lemma holds_all : forall x U b,
  checked_get_type (Comb (Const "all" (TFun (TFun U BoolT) BoolT)) (Abs x U b)) = Some BoolT ->
  holds (Comb (Const "all" (TFun (TFun U BoolT) BoolT)) (Abs x U b)) =
  forallb (fun v => V_eqb (snd (eval [(tysem U, v)] b)) (VB true)) (dom (tysem U)).
Proof.
  intros x U b H. unfold checked_get_type in H.
  destruct (eval_comb _ _ _ _ _ H env_ok_nil) as [Ta [Habs [_ E]]].
  pose proof H as H'. apply checked_comb in H'. destruct H' as [Ta' [m [rest [Hc [_ Ha']]]]].
  rewrite Habs in Ha'. inversion Ha'; subst Ta'. cbn [checked_get_type_rec] in Hc. unfold TFun in Hc. inversion Hc; subst Ta. clear Hc Ha'.
  destruct (eval_ty _ _ _ _ Habs env_ok_nil) as [_ Hv].
  unfold Sem.holds. rewrite E. cbn [snd]. cbn [Sem.eval snd].
  change (TConst "fun" [U; BoolT]) with (TFun U BoolT) in *.
  rewrite !tysem_TFun in *. rewrite !tysem_bool in *. rewrite (st_all _ Hstd).
  unfold tab1. rewrite (app_tabulate DC (SF (tysem U) SB) _ _ Hv).
  cbn [V_eqb]. cbn [Sem.eval snd]. rewrite map_map.
  match goal with |- Bool.eqb ?a true = _ => replace (Bool.eqb a true) with a by (destruct a; reflexivity) end.
  apply forallb_ext_in. intros v Hin. unfold vapp. rewrite (app_tabulate DC (tysem U) _ _ Hin). apply vb_eqb.
Qed.

End InModel.

(* ---------------------------------------------------------------- *)
(* the rules                                                          *)

Variable fx : fixes.

Lemma sound_assume : forall A th, r_assume A = Some th -> valid th.
Proof.
  intros A th H. inversion H; subst. intros thT thS sigV sigS HV HS Hh. cbn in *. apply Hh. left. reflexivity.
Qed.

Lemma sound_implies_intr : forall A th th', wt th -> valid th -> r_implies_intr A th = Some th' -> wt th' -> valid th'.
Proof.
  intros A th th' Hwt Hv H Hwt'. inversion H; subst th'. clear H.
  intros thT thS sigV sigS HV HS Hh. cbn [prop hyps] in *.
  pose proof (wt_prop _ Hwt') as Hp. cbn [prop] in Hp. destruct (checked_mk_implies _ _ Hp) as [HA HB].
  unfold mk_implies, implies_const in *. rewrite (holds_imp thT thS sigV sigS HV HS _ _ _ Hp HA HB).
  destruct (Sem.holds DC thT thS IC sigV sigS A) eqn:EA; [|reflexivity]. cbn [implb].
  apply (Hv thT thS sigV sigS HV HS). intros h Hin.
  destruct (tm_eqb h A) eqn:E.
  - rewrite (holds_alpha thT thS sigV sigS _ _ E). exact EA.
  - apply Hh. apply filter_In. split; [exact Hin | rewrite E; reflexivity].
Qed.

Lemma hyps_merge : forall thT thS sigV sigS h1 h2,
  (forall h, In h (add_hyps_tuple h1 h2) -> Sem.holds DC thT thS IC sigV sigS h = true) ->
  (forall h, In h h1 -> Sem.holds DC thT thS IC sigV sigS h = true) /\
  (forall h, In h h2 -> Sem.holds DC thT thS IC sigV sigS h = true).
Proof.
  intros thT thS sigV sigS h1 h2 H. split; intros h Hin.
  - eapply holds_mem; [apply mem_add_hyps_l; apply mem_tm_in; exact Hin | exact H].
  - eapply holds_mem; [apply mem_add_hyps_r; apply mem_tm_in; exact Hin | exact H].
Qed.

Lemma dest_binop_eq : forall n t a b, dest_binop n t = Some (a, b) -> exists T, t = Comb (Comb (Const n T) a) b.
Proof.
  intros n t a b H. unfold dest_binop in H. destruct t as [| | |f y| |]; try discriminate.
  destruct f as [| | |g x| |]; try discriminate. destruct g as [| |m T| | |]; try discriminate.
  destruct (String.eqb m n) eqn:E; [|discriminate]. apply String.eqb_eq in E. inversion H; subst. eauto.
Qed.

Lemma sound_implies_elim : forall th1 th2 th', wt th1 -> wt th2 -> valid th1 -> valid th2 ->
  r_implies_elim th1 th2 = Some th' -> wt th' -> valid th'.
Proof.
  intros th1 th2 th' W1 W2 V1 V2 H W'. unfold r_implies_elim in H.
  destruct (dest_binop "implies" (prop th1)) as [[A B]|] eqn:E; [|discriminate].
  destruct (tm_eqb A (prop th2)) eqn:EA; [|discriminate]. inversion H; subst th'. clear H.
  apply dest_binop_eq in E. destruct E as [T E].
  intros thT thS sigV sigS HV HS Hh. cbn [prop hyps] in *.
  destruct (hyps_merge _ _ _ _ _ _ Hh) as [Hh1 Hh2].
  pose proof (V1 thT thS sigV sigS HV HS Hh1) as P1. pose proof (V2 thT thS sigV sigS HV HS Hh2) as P2.
  pose proof (wt_prop _ W1) as T1. pose proof (wt_prop _ W2) as T2. pose proof (wt_prop _ W') as T3. cbn [prop] in T3.
  rewrite E in P1, T1.
  assert (TA : checked_get_type A = Some BoolT).
  { unfold checked_get_type. rewrite (checked_alpha _ _ [] EA). exact T2. }
  rewrite (holds_imp thT thS sigV sigS HV HS _ _ _ T1 TA T3) in P1.
  rewrite (holds_alpha thT thS sigV sigS _ _ EA), P2 in P1. exact P1.
Qed.

(* ---- equational rules ---- *)

Definition wfc (th : thm) : Prop := wfc_thm th = true.

Lemma wfc_prop : forall th, wfc th -> wf_consts (prop th) = true.
Proof.
  intros th H. unfold wfc, wfc_thm in H. rewrite forallb_app in H. apply andb_true_iff in H.
  destruct H as [_ H]. cbn in H. rewrite andb_true_r in H. exact H.
Qed.

Lemma mk_eq_shape : forall s t p, mk_eq s t = Some p -> exists T, p = Comb (Comb (Const "equals" T) s) t.
Proof. intros s t p H. unfold mk_eq, equals_const in H. destruct (get_type s); [|discriminate]. inversion H. eexists. reflexivity. Qed.

Lemma sound_reflexive : forall x th, r_reflexive x = Some th -> wt th -> valid th.
Proof.
  intros x th H W. unfold r_reflexive in H. destruct (mk_eq x x) as [p|] eqn:E; [|discriminate]. inversion H; subst th. clear H.
  apply mk_eq_shape in E. destruct E as [T ->].
  intros thT thS sigV sigS HV HS _. cbn [prop]. pose proof (wt_prop _ W) as Tp. cbn [prop] in Tp.
  rewrite (holds_eq thT thS sigV sigS HV HS _ _ _ Tp). apply V_eqb_refl.
Qed.

Lemma sound_symmetric : forall th th', wt th -> valid th -> r_symmetric th = Some th' -> wt th' -> valid th'.
Proof.
  intros th th' W V H W'. unfold r_symmetric in H.
  destruct (dest_binop "equals" (prop th)) as [[x y]|] eqn:E; [|discriminate].
  destruct (mk_eq y x) as [p|] eqn:Ep; [|discriminate]. inversion H; subst th'. clear H.
  apply dest_binop_eq in E. destruct E as [T E]. apply mk_eq_shape in Ep. destruct Ep as [T' ->].
  intros thT thS sigV sigS HV HS Hh. cbn [prop hyps] in *.
  pose proof (V thT thS sigV sigS HV HS Hh) as P. pose proof (wt_prop _ W) as T1. pose proof (wt_prop _ W') as T2. cbn [prop] in T2.
  rewrite E in P, T1. rewrite (holds_eq thT thS sigV sigS HV HS _ _ _ T1) in P.
  rewrite (holds_eq thT thS sigV sigS HV HS _ _ _ T2). apply V_eqb_eq in P. rewrite P. apply V_eqb_refl.
Qed.

Lemma sound_transitive : forall th1 th2 th', wt th1 -> wt th2 -> valid th1 -> valid th2 ->
  r_transitive th1 th2 = Some th' -> wt th' -> valid th'.
Proof.
  intros th1 th2 th' W1 W2 V1 V2 H W'. unfold r_transitive in H.
  destruct (dest_binop "equals" (prop th1)) as [[x y1]|] eqn:E1; [|discriminate].
  destruct (dest_binop "equals" (prop th2)) as [[y2 z]|] eqn:E2; [|discriminate].
  destruct (tm_eqb y1 y2) eqn:Ey; [|discriminate].
  destruct (mk_eq x z) as [p|] eqn:Ep; [|discriminate]. inversion H; subst th'. clear H.
  apply dest_binop_eq in E1. destruct E1 as [T1 E1]. apply dest_binop_eq in E2. destruct E2 as [T2 E2].
  apply mk_eq_shape in Ep. destruct Ep as [T' ->].
  intros thT thS sigV sigS HV HS Hh. cbn [prop hyps] in *.
  destruct (hyps_merge _ _ _ _ _ _ Hh) as [Hh1 Hh2].
  pose proof (V1 thT thS sigV sigS HV HS Hh1) as P1. pose proof (V2 thT thS sigV sigS HV HS Hh2) as P2.
  pose proof (wt_prop _ W1) as Tp1. pose proof (wt_prop _ W2) as Tp2. pose proof (wt_prop _ W') as Tp3. cbn [prop] in Tp3.
  rewrite E1 in P1, Tp1. rewrite E2 in P2, Tp2.
  rewrite (holds_eq thT thS sigV sigS HV HS _ _ _ Tp1) in P1. rewrite (holds_eq thT thS sigV sigS HV HS _ _ _ Tp2) in P2.
  rewrite (holds_eq thT thS sigV sigS HV HS _ _ _ Tp3).
  apply V_eqb_eq in P1. apply V_eqb_eq in P2. rewrite P1.
  rewrite (eval_alpha DC thT thS IC sigV sigS _ _ [] Ey). rewrite P2. apply V_eqb_refl.
Qed.

Lemma sound_equal_elim : forall th1 th2 th', wt th1 -> wt th2 -> valid th1 -> valid th2 ->
  r_equal_elim th1 th2 = Some th' -> wt th' -> valid th'.
Proof.
  intros th1 th2 th' W1 W2 V1 V2 H W'. unfold r_equal_elim in H.
  destruct (dest_binop "equals" (prop th1)) as [[A B]|] eqn:E; [|discriminate].
  destruct (tm_eqb A (prop th2)) eqn:EA; [|discriminate]. inversion H; subst th'. clear H.
  apply dest_binop_eq in E. destruct E as [T E].
  intros thT thS sigV sigS HV HS Hh. cbn [prop hyps] in *.
  destruct (hyps_merge _ _ _ _ _ _ Hh) as [Hh1 Hh2].
  pose proof (V1 thT thS sigV sigS HV HS Hh1) as P1. pose proof (V2 thT thS sigV sigS HV HS Hh2) as P2.
  pose proof (wt_prop _ W1) as T1. rewrite E in P1, T1.
  rewrite (holds_eq thT thS sigV sigS HV HS _ _ _ T1) in P1. apply V_eqb_eq in P1.
  rewrite <- (holds_alpha thT thS sigV sigS _ _ EA) in P2.
  unfold Sem.holds in *. rewrite <- P1. exact P2.
Qed.

(* equal_intr needs "implies" at its declared type: with a foreign instance
   such as implies : 'a => 'a => bool the rule is not sound, and the checker
   never compares rule arguments with the signature (see DESIGN.md, C01). *)
Lemma wf_implies_args : forall T A B, wf_consts (Comb (Comb (Const "implies" T) A) B) = true ->
  checked_get_type (Comb (Comb (Const "implies" T) A) B) = Some BoolT ->
  checked_get_type A = Some BoolT /\ checked_get_type B = Some BoolT.
Proof.
  intros T A B Hw H. cbn in Hw. apply andb_true_iff in Hw. destruct Hw as [Hw _]. apply andb_true_iff in Hw.
  destruct Hw as [Hw _]. apply ty_eqb_eq in Hw. subst T. apply (checked_mk_implies A B H).
Qed.

Lemma sound_equal_intr : forall th1 th2 th', wt th1 -> wt th2 -> wfc th1 -> valid th1 -> valid th2 ->
  r_equal_intr th1 th2 = Some th' -> wt th' -> valid th'.
Proof.
  intros th1 th2 th' W1 W2 C1 V1 V2 H W'. unfold r_equal_intr in H.
  destruct (dest_binop "implies" (prop th1)) as [[A1 B1]|] eqn:E1; [|discriminate].
  destruct (dest_binop "implies" (prop th2)) as [[B2 A2]|] eqn:E2; [|discriminate].
  destruct (tm_eqb A1 A2 && tm_eqb B1 B2) eqn:Eab; [|discriminate]. apply andb_true_iff in Eab. destruct Eab as [EA EB].
  destruct (mk_eq A1 B1) as [p|] eqn:Ep; [|discriminate]. inversion H; subst th'. clear H.
  apply dest_binop_eq in E1. destruct E1 as [T1 E1]. apply dest_binop_eq in E2. destruct E2 as [T2 E2].
  apply mk_eq_shape in Ep. destruct Ep as [T' ->].
  intros thT thS sigV sigS HV HS Hh. cbn [prop hyps] in *.
  destruct (hyps_merge _ _ _ _ _ _ Hh) as [Hh1 Hh2].
  pose proof (V1 thT thS sigV sigS HV HS Hh1) as P1. pose proof (V2 thT thS sigV sigS HV HS Hh2) as P2.
  pose proof (wt_prop _ W1) as Tp1. pose proof (wt_prop _ W2) as Tp2. pose proof (wt_prop _ W') as Tp3. cbn [prop] in Tp3.
  pose proof (wfc_prop _ C1) as Cp1.
  rewrite E1 in P1, Tp1, Cp1. rewrite E2 in P2, Tp2.
  destruct (wf_implies_args _ _ _ Cp1 Tp1) as [TA TB].
  assert (TA2 : checked_get_type A2 = Some BoolT) by (unfold checked_get_type; rewrite <- (checked_alpha _ _ [] EA); exact TA).
  assert (TB2 : checked_get_type B2 = Some BoolT) by (unfold checked_get_type; rewrite <- (checked_alpha _ _ [] EB); exact TB).
  rewrite (holds_imp thT thS sigV sigS HV HS _ _ _ Tp1 TA TB) in P1.
  rewrite (holds_imp thT thS sigV sigS HV HS _ _ _ Tp2 TB2 TA2) in P2.
  rewrite <- (holds_alpha thT thS sigV sigS _ _ EA), <- (holds_alpha thT thS sigV sigS _ _ EB) in P2.
  rewrite (holds_eq thT thS sigV sigS HV HS _ _ _ Tp3).
  destruct (eval_ty thT thS sigV sigS HV HS _ _ _ _ TA (env_ok_nil thT thS)) as [_ HvA].
  destruct (eval_ty thT thS sigV sigS HV HS _ _ _ _ TB (env_ok_nil thT thS)) as [_ HvB].
  apply in_dom_SB in HvA. apply in_dom_SB in HvB. unfold Sem.holds in P1, P2.
  destruct HvA as [Ha | Ha]; destruct HvB as [Hb | Hb]; rewrite Ha, Hb in *; cbn in *; congruence.
Qed.

(* beta_conv and forall_elim rest on subst_bound_sem *)
Lemma sound_beta_conv : forall t th, r_beta_conv t = Some th -> wt th -> valid th.
Proof.
  intros t th H W. unfold r_beta_conv in H. destruct (beta_conv t) as [t'|] eqn:Eb; [|discriminate].
  destruct (mk_eq t t') as [p|] eqn:Ep; [|discriminate]. inversion H; subst th. clear H.
  apply mk_eq_shape in Ep. destruct Ep as [T ->].
  intros thT thS sigV sigS HV HS _. cbn [prop]. pose proof (wt_prop _ W) as Tp. cbn [prop] in Tp.
  rewrite (holds_eq thT thS sigV sigS HV HS _ _ _ Tp). apply V_eqb_eq.
  unfold beta_conv in Eb. destruct t as [| | |f a| |]; try discriminate. destruct f as [| | | |x U b|]; try discriminate.
  cbn [subst_bound] in Eb. inversion Eb; subst t'. clear Eb.
  (* the redex is well typed, so its argument evaluates into the binder's domain *)
  unfold checked_get_type in Tp. apply checked_comb in Tp. destruct Tp as [Tt [n [rest [Hf [Hn Ht']]]]].
  apply checked_comb in Hf. destruct Hf as [Tt2 [n2 [rest2 [_ [_ Hredex]]]]].
  pose proof Hredex as Hr. apply checked_comb in Hr. destruct Hr as [Ta [n3 [rest3 [Habs [Hn3 Ha]]]]].
  cbn [checked_get_type_rec] in Habs. destruct (checked_get_type_rec b [U]) as [Tb|] eqn:Eb; [|discriminate].
  unfold TFun in Habs. inversion Habs; subst. clear Habs.
  destruct (eval_ty thT thS sigV sigS HV HS _ _ _ _ Ha (env_ok_nil thT thS)) as [Ha1 Ha2].
  pose proof (subst_bound_sem DC thT thS IC sigV sigS b [] [] a) as Hs. cbn [Datatypes.app Datatypes.length] in Hs. rewrite Hs. clear Hs.
  cbn [Sem.eval]. destruct (Sem.eval DC thT thS IC sigV sigS [] a) as [sa va] eqn:Ea. cbn [fst snd] in *. subst sa.
  cbn [snd]. rewrite map_map. rewrite (app_tabulate DC (tysem thT thS Ta) (fun v => snd (Sem.eval DC thT thS IC sigV sigS [(tysem thT thS Ta, v)] b)) va Ha2)
    by idtac.
  reflexivity.
Qed.

(* subst_type: a sequent valid under every type assignment stays valid after
   instantiating schematic type variables *)
Lemma sound_subst_type : forall s th th', valid th -> r_subst_type s th = Some th' -> valid th'.
Proof.
  intros s th th' V H. inversion H; subst th'. clear H.
  intros thT thS sigV sigS HV HS Hh. cbn [prop hyps] in *.
  unfold Sem.holds in *. rewrite eval_subst_type.
  apply (V thT (thS_subst thT thS s) (fun n T => sigV n (ty_subst s T)) (fun n T => sigS n (ty_subst s T))).
  - intros n T. rewrite <- tysem_subst. apply HV.
  - intros n T. rewrite <- tysem_subst. apply HS.
  - intros h Hin. specialize (Hh _ (in_map (tm_subst_type s) _ _ Hin)). rewrite eval_subst_type in Hh. exact Hh.
Qed.

(* combination needs "equals" of the second premise at its declared type (both
   sides of x = y of one type); see the remark at equal_intr *)
Lemma wf_equals_args : forall T x y, wf_consts (Comb (Comb (Const "equals" T) x) y) = true ->
  checked_get_type (Comb (Comb (Const "equals" T) x) y) = Some BoolT ->
  exists A, checked_get_type x = Some A /\ checked_get_type y = Some A.
Proof.
  intros T x y Hw H. cbn in Hw. apply andb_true_iff in Hw. destruct Hw as [Hw _]. apply andb_true_iff in Hw.
  destruct Hw as [Hw _]. destruct T as [| |n [|A rest]]; try discriminate. apply ty_eqb_eq in Hw.
  unfold checked_get_type in *.
  apply checked_comb in H. destruct H as [Ty [n1 [r1 [H [Hn1 Hy]]]]].
  apply checked_comb in H. destruct H as [Tx [n2 [r2 [H [Hn2 Hx]]]]].
  cbn [checked_get_type_rec] in H. rewrite Hw in H. unfold TFun in H. inversion H; subst. eauto.
Qed.

Lemma sound_combination : forall th1 th2 th', wt th1 -> wt th2 -> wfc th2 -> valid th1 -> valid th2 ->
  r_combination th1 th2 = Some th' -> wt th' -> valid th'.
Proof.
  intros th1 th2 th' W1 W2 C2 V1 V2 H W'. unfold r_combination in H.
  destruct (dest_binop "equals" (prop th1)) as [[f g]|] eqn:E1; [|discriminate].
  destruct (dest_binop "equals" (prop th2)) as [[x y]|] eqn:E2; [|discriminate].
  destruct (get_type f) as [Tf|]; [|discriminate]. destruct (get_type x) as [Tx|]; [|discriminate].
  destruct (is_fun_name Tf); [|discriminate]. destruct Tf as [| |nf [|d rest]]; try discriminate.
  destruct (ty_eqb d Tx); [|discriminate].
  destruct (mk_eq (Comb f x) (Comb g y)) as [p|] eqn:Ep; [|discriminate]. inversion H; subst th'. clear H.
  apply dest_binop_eq in E1. destruct E1 as [T1 E1]. apply dest_binop_eq in E2. destruct E2 as [T2 E2].
  apply mk_eq_shape in Ep. destruct Ep as [T' ->].
  intros thT thS sigV sigS HV HS Hh. cbn [prop hyps] in *.
  destruct (hyps_merge _ _ _ _ _ _ Hh) as [Hh1 Hh2].
  pose proof (V1 thT thS sigV sigS HV HS Hh1) as P1. pose proof (V2 thT thS sigV sigS HV HS Hh2) as P2.
  pose proof (wt_prop _ W1) as Tp1. pose proof (wt_prop _ W2) as Tp2. pose proof (wt_prop _ W') as Tp3. cbn [prop] in Tp3.
  pose proof (wfc_prop _ C2) as Cp2.
  rewrite E1 in P1, Tp1. rewrite E2 in P2, Tp2, Cp2.
  rewrite (holds_eq thT thS sigV sigS HV HS _ _ _ Tp1) in P1. rewrite (holds_eq thT thS sigV sigS HV HS _ _ _ Tp2) in P2.
  rewrite (holds_eq thT thS sigV sigS HV HS _ _ _ Tp3).
  apply V_eqb_eq in P1. apply V_eqb_eq in P2.
  destruct (wf_equals_args _ _ _ Cp2 Tp2) as [A [HxA HyA]].
  destruct (eval_binop thT thS sigV sigS HV HS _ _ _ _ _ _ _ Tp3 (env_ok_nil thT thS)) as [Tfx [Tgy [Hfx [Hgy _]]]].
  destruct (eval_comb thT thS sigV sigS HV HS _ _ _ _ _ Hfx (env_ok_nil thT thS)) as [Ta [Hxa [_ Efx]]].
  destruct (eval_comb thT thS sigV sigS HV HS _ _ _ _ _ Hgy (env_ok_nil thT thS)) as [Ta' [Hya [_ Egy]]].
  unfold checked_get_type in HxA, HyA. rewrite HxA in Hxa. rewrite HyA in Hya. inversion Hxa; inversion Hya; subst Ta Ta'.
  rewrite Efx, Egy. cbn [snd]. rewrite P1, P2. apply V_eqb_refl.
Qed.

(* forall_intr and abstraction: the abstracted variable is read from the
   environment; it does not occur in the hypotheses, so they do not notice.
   Needs the repaired occurs_var (SVar treated like Var). *)
Lemma hyps_no_occ : forall x l, existsb (fun h => occurs_var true h x) l = false ->
  forall h, In h l -> occurs_var true h x = false.
Proof.
  intros x l H h Hin. destruct (occurs_var true h x) eqn:E; [|reflexivity].
  assert (existsb (fun h => occurs_var true h x) l = true) by (apply existsb_exists; exists h; auto). congruence.
Qed.

Lemma sound_forall_intr : forall x th th', fx_occurs_svar fx = true -> wt th -> valid th ->
  r_forall_intr fx x th = Some th' -> wt th' -> valid th'.
Proof.
  intros x th th' Hfx W V H W'. unfold r_forall_intr in H. rewrite Hfx in H.
  destruct (existsb (fun h => occurs_var true h x) (hyps th)) eqn:Eo; [discriminate|].
  destruct (is_var_or_svar x) eqn:Ev; [|discriminate]. cbn [negb] in H.
  destruct (mk_forall x (prop th)) as [p|] eqn:Ep; [|discriminate]. inversion H; subst th'. clear H.
  unfold mk_forall, mk_lambda in Ep. pose proof (wt_prop _ W) as Tp. pose proof (wt_prop _ W') as Tp'. cbn [prop] in Tp'.
  pose proof (checked_closed _ _ _ Tp) as Hcl. cbn [Datatypes.length] in Hcl.
  intros thT thS sigV sigS HV HS Hh. cbn [prop hyps] in *.
  destruct x as [n T|n T| | | |]; try discriminate; cbn [var_name_ty] in Ep; unfold abstract_over in Ep; cbn [is_var_or_svar] in Ep.
  - destruct (abstract_over_rec (prop th) 0 (SVar n T)) as [b|] eqn:Ea; [|discriminate]. inversion Ep; subst p. clear Ep.
    unfold forall_const in *. rewrite (holds_all thT thS sigV sigS HV HS _ _ _ Tp').
    apply forallb_forall. intros v Hv.
    pose proof (abstract_over_svar_sem DC thT thS IC n T v sigV sigS _ 0 _ [] [] Ea Hcl eq_refl) as Hs. cbn [Datatypes.app] in Hs. rewrite Hs.
    apply (V thT thS sigV (upd sigS n T v) HV (val_ok_upd DC thT thS _ _ _ _ HS Hv)).
    intros h Hin. unfold Sem.holds. rewrite (eval_upd_svar DC thT thS IC n T v sigV sigS h [] (hyps_no_occ _ _ Eo h Hin)).
    apply Hh. exact Hin.
  - destruct (abstract_over_rec (prop th) 0 (Var n T)) as [b|] eqn:Ea; [|discriminate]. inversion Ep; subst p. clear Ep.
    unfold forall_const in *. rewrite (holds_all thT thS sigV sigS HV HS _ _ _ Tp').
    apply forallb_forall. intros v Hv.
    pose proof (abstract_over_var_sem DC thT thS IC n T v sigV sigS _ 0 _ [] [] Ea Hcl eq_refl) as Hs. cbn [Datatypes.app] in Hs. rewrite Hs.
    apply (V thT thS (upd sigV n T v) sigS (val_ok_upd DC thT thS _ _ _ _ HV Hv) HS).
    intros h Hin. unfold Sem.holds. rewrite (eval_upd_var DC thT thS IC n T v sigV sigS h [] (hyps_no_occ _ _ Eo h Hin)).
    apply Hh. exact Hin.
Qed.

Lemma sound_abstraction : forall x th th', fx_occurs_svar fx = true -> wt th -> valid th ->
  r_abstraction fx x th = Some th' -> wt th' -> valid th'.
Proof.
  intros x th th' Hfx W V H W'. unfold r_abstraction in H. rewrite Hfx in H.
  destruct (existsb (fun h => occurs_var true h x) (hyps th)) eqn:Eo; [discriminate|].
  destruct (dest_binop "equals" (prop th)) as [[t1 t2]|] eqn:E; [|discriminate].
  destruct (mk_lambda x t1) as [l1|] eqn:E1; [|discriminate]. destruct (mk_lambda x t2) as [l2|] eqn:E2; [|discriminate].
  destruct (mk_eq l1 l2) as [p|] eqn:Ep; [|discriminate]. inversion H; subst th'. clear H.
  apply dest_binop_eq in E. destruct E as [T0 E]. apply mk_eq_shape in Ep. destruct Ep as [T' ->].
  pose proof (wt_prop _ W) as Tp. pose proof (wt_prop _ W') as Tp'. cbn [prop] in Tp'. rewrite E in Tp.
  assert (Hc : is_open_rec t1 0 = false /\ is_open_rec t2 0 = false).
  { unfold checked_get_type in Tp. apply checked_comb in Tp. destruct Tp as [Ty [n1 [r1 [Hq [_ Hy]]]]].
    apply checked_comb in Hq. destruct Hq as [Tx [n2 [r2 [_ [_ Hx]]]]].
    split; [apply (checked_closed _ _ _ Hx) | apply (checked_closed _ _ _ Hy)]. }
  destruct Hc as [Hc1 Hc2].
  intros thT thS sigV sigS HV HS Hh. cbn [prop hyps] in *.
  rewrite (holds_eq thT thS sigV sigS HV HS _ _ _ Tp'). apply V_eqb_eq.
  unfold mk_lambda in E1, E2.
  destruct x as [n T|n T| | | |]; try discriminate; cbn [var_name_ty] in E1, E2; unfold abstract_over in E1, E2; cbn [is_var_or_svar] in E1, E2.
  - destruct (abstract_over_rec t1 0 (SVar n T)) as [b1|] eqn:Ea1; [|discriminate].
    destruct (abstract_over_rec t2 0 (SVar n T)) as [b2|] eqn:Ea2; [|discriminate]. inversion E1; inversion E2; subst l1 l2.
    cbn [Sem.eval snd]. f_equal. rewrite !map_map. apply map_ext_in. intros v Hv.
    pose proof (abstract_over_svar_sem DC thT thS IC n T v sigV sigS _ 0 _ [] [] Ea1 Hc1 eq_refl) as Hs1.
    pose proof (abstract_over_svar_sem DC thT thS IC n T v sigV sigS _ 0 _ [] [] Ea2 Hc2 eq_refl) as Hs2.
    cbn [Datatypes.app] in Hs1, Hs2. rewrite Hs1, Hs2.
    pose proof (val_ok_upd DC thT thS _ n T v HS Hv) as HS'.
    assert (P : Sem.holds DC thT thS IC sigV (upd sigS n T v) (prop th) = true).
    { apply (V thT thS sigV (upd sigS n T v) HV HS'). intros h Hin. unfold Sem.holds.
      rewrite (eval_upd_svar DC thT thS IC n T v sigV sigS h [] (hyps_no_occ _ _ Eo h Hin)). apply Hh. exact Hin. }
    rewrite E in P. rewrite (holds_eq thT thS sigV (upd sigS n T v) HV HS' _ _ _ Tp) in P. apply V_eqb_eq in P. exact P.
  - destruct (abstract_over_rec t1 0 (Var n T)) as [b1|] eqn:Ea1; [|discriminate].
    destruct (abstract_over_rec t2 0 (Var n T)) as [b2|] eqn:Ea2; [|discriminate]. inversion E1; inversion E2; subst l1 l2.
    cbn [Sem.eval snd]. f_equal. rewrite !map_map. apply map_ext_in. intros v Hv.
    pose proof (abstract_over_var_sem DC thT thS IC n T v sigV sigS _ 0 _ [] [] Ea1 Hc1 eq_refl) as Hs1.
    pose proof (abstract_over_var_sem DC thT thS IC n T v sigV sigS _ 0 _ [] [] Ea2 Hc2 eq_refl) as Hs2.
    cbn [Datatypes.app] in Hs1, Hs2. rewrite Hs1, Hs2.
    pose proof (val_ok_upd DC thT thS _ n T v HV Hv) as HV'.
    assert (P : Sem.holds DC thT thS IC (upd sigV n T v) sigS (prop th) = true).
    { apply (V thT thS (upd sigV n T v) sigS HV' HS). intros h Hin. unfold Sem.holds.
      rewrite (eval_upd_var DC thT thS IC n T v sigV sigS h [] (hyps_no_occ _ _ Eo h Hin)). apply Hh. exact Hin. }
    rewrite E in P. rewrite (holds_eq thT thS (upd sigV n T v) sigS HV' HS _ _ _ Tp) in P. apply V_eqb_eq in P. exact P.
Qed.

(* forall_elim: the kernel only asks for get_type of the instance; typing of the
   RESULT makes the instance well typed wherever it is actually used *)
Lemma sound_forall_elim : forall s th th', wt th -> wfc th -> valid th ->
  r_forall_elim s th = Some th' -> wt th' -> valid th'.
Proof.
  intros s th th' W C V H W'. unfold r_forall_elim in H.
  destruct (dest_unop "all" (prop th)) as [l|] eqn:E; [|discriminate].
  destruct l as [| | | |x U b|]; try discriminate.
  destruct (get_type s) as [Ts|] eqn:Es; [|discriminate]. destruct (ty_eqb U Ts) eqn:EU; [|discriminate].
  apply ty_eqb_eq in EU. subst Ts. inversion H; subst th'. clear H.
  unfold dest_unop in E. destruct (prop th) as [| | |q a| |] eqn:Eprop; try discriminate.
  destruct q as [| |nm T0| | |]; try discriminate. destruct (String.eqb nm "all") eqn:En; [|discriminate].
  apply String.eqb_eq in En. subst nm. inversion E; subst a. clear E.
  pose proof (wt_prop _ W) as Tp. pose proof (wt_prop _ W') as Tp'. cbn [prop] in Tp'. rewrite Eprop in Tp.
  pose proof (wfc_prop _ C) as Cp. rewrite Eprop in Cp. cbn in Cp. apply andb_true_iff in Cp. destruct Cp as [Cp _].
  destruct T0 as [| |n0 [|[| |n1 [|A r1]] r0]]; try discriminate. apply ty_eqb_eq in Cp.
  assert (A = U).
  { pose proof Tp as Tq. unfold checked_get_type in Tq. apply checked_comb in Tq. destruct Tq as [Ta [m [rest [Hc [_ Ha]]]]].
    cbn [checked_get_type_rec] in Hc, Ha. rewrite Cp in Hc. unfold TFun in Hc. inversion Hc; subst.
    destruct (checked_get_type_rec b [U]); [|discriminate]. unfold TFun in Ha. inversion Ha. reflexivity. }
  subst A. rewrite Cp in *. clear Cp.
  intros thT thS sigV sigS HV HS Hh. cbn [prop hyps] in *.
  pose proof (V thT thS sigV sigS HV HS Hh) as P. rewrite Eprop in P.
  rewrite (holds_all thT thS sigV sigS HV HS _ _ _ Tp) in P. rewrite forallb_forall in P.
  unfold Sem.holds.
  pose proof (subst_bound_sem DC thT thS IC sigV sigS b [] [] s) as Hs. cbn [Datatypes.app Datatypes.length] in Hs. rewrite Hs. clear Hs.
  destruct (occ 0 b) eqn:Eo.
  - destruct (subst_bound_typed_arg b 0 s [] BoolT Tp' eq_refl Eo) as [Ts Hts].
    pose proof (checked_is_get _ _ _ Hts) as Hg. unfold get_type in Es. rewrite Es in Hg. inversion Hg; subst Ts.
    destruct (eval_ty thT thS sigV sigS HV HS _ _ _ _ Hts (env_ok_nil thT thS)) as [H1 H2].
    destruct (Sem.eval DC thT thS IC sigV sigS [] s) as [ss vs]. cbn [fst snd] in H1, H2. subst ss.
    apply P. exact H2.
  - destruct (Sem.dom DC (tysem thT thS U)) as [|v0 vs] eqn:Ed; [exfalso; apply (dom_nonempty DC _ Ed)|].
    pose proof (not_occ_eval DC thT thS IC sigV sigS b [] (Sem.eval DC thT thS IC sigV sigS [] s) (tysem thT thS U, v0) [] Eo) as Hn.
    cbn [Datatypes.app] in Hn. rewrite Hn.
    apply P. left. reflexivity.
Qed.

End Sound.
