(* CheckSound.v — the checker model accepts only proofs whose every recorded
   theorem lies in the inductive closure [Good] of the rule functions. *)
From Coq Require Import List String Bool Arith Lia.
Import ListNotations.
From HolpyV Require Import Kernel KernelLemmas Check.
Open Scope string_scope.
Open Scope list_scope.
Open Scope nat_scope.

Lemma iid_eqb_eq : forall a b, iid_eqb a b = true <-> a = b.
Proof.
  induction a as [|x a IH]; destruct b as [|y b]; cbn; try (split; [discriminate | discriminate]).
  - split; reflexivity.
  - rewrite andb_true_iff, Nat.eqb_eq, IH. split; [intros [-> ->]; reflexivity | intros E; inversion E; auto].
Qed.

(* ------------------------------------------------------------------ *)
(* can_depend_on: the cited id is an earlier sibling of the citing id or of
   one of its ancestors — never the item itself, a later item, a descendant,
   or an item inside a block that is already closed. *)

Definition vis (p q : iid) : Prop :=
  exists k j, k < List.length p /\ q = firstn k p ++ [j] /\ j < nth k p 0.

Lemma firstn_snoc_nth : forall (l : list nat) k, k < List.length l -> firstn (S k) l = firstn k l ++ [nth k l 0].
Proof.
  induction l as [|x l IH]; intros k H; [cbn in H; lia|].
  destruct k as [|k]; [reflexivity|]. change (x :: firstn (S k) l = x :: (firstn k l ++ [nth k l 0])).
  f_equal. apply IH. cbn in H. lia.
Qed.

Lemma can_depend_on_vis : forall self other, can_depend_on self other = true -> vis self other.
Proof.
  intros self other H. unfold can_depend_on in H.
  destruct (List.length other) as [|l1] eqn:El; [discriminate|].
  destruct (List.length self <? S l1) eqn:E1; [discriminate|]. apply Nat.ltb_ge in E1.
  destruct (iid_eqb (firstn l1 other) (firstn l1 self)) eqn:E2; [|discriminate]. cbn [negb] in H.
  apply iid_eqb_eq in E2. apply Nat.ltb_lt in H.
  exists l1, (nth l1 other 0). split; [lia|]. split; [|exact H].
  rewrite <- E2. rewrite <- firstn_snoc_nth by lia. rewrite <- El. symmetry. apply firstn_all.
Qed.

Definition prefix (p q : iid) : Prop := exists r, q = p ++ r.

Lemma vis_not_prefix : forall p q, vis p q -> ~ prefix p q.
Proof.
  intros p q [k [j [Hk [-> Hj]]]] [r E].
  assert (H : nth k (firstn k p ++ [j]) 0 = nth k (p ++ r) 0) by (rewrite E; reflexivity).
  rewrite app_nth2 in H by (rewrite firstn_length; lia).
  rewrite firstn_length, Nat.min_l in H by lia. rewrite Nat.sub_diag in H. cbn in H.
  rewrite app_nth1 in H by lia. lia.
Qed.

Lemma vis_child : forall p k q, vis (p ++ [k]) q -> vis p q \/ exists j, j < k /\ q = p ++ [j].
Proof.
  intros p k q [i [j [Hi [-> Hj]]]]. rewrite app_length in Hi. cbn in Hi.
  destruct (Nat.lt_ge_cases i (List.length p)) as [Hlt | Hge].
  - left. exists i, j. split; [exact Hlt|]. rewrite firstn_app. replace (i - List.length p) with 0 by lia.
    cbn [firstn]. rewrite app_nil_r. split; [reflexivity|]. rewrite app_nth1 in Hj by lia. exact Hj.
  - assert (i = List.length p) by lia. subst i. right. exists j.
    rewrite app_nth2 in Hj by lia. rewrite Nat.sub_diag in Hj. cbn in Hj. split; [exact Hj|].
    rewrite firstn_app, Nat.sub_diag. cbn [firstn]. rewrite app_nil_r, firstn_all. reflexivity.
Qed.

(* ------------------------------------------------------------------ *)
(* positions, lookups and updates                                        *)

Definition thv (root : list item) (q : iid) : option thm :=
  match find_item root q with Some it => it_th it | None => None end.

Lemma nth_error_update_nth_same : forall {A} (l : list A) k f,
  nth_error (update_nth l k f) k = option_map f (nth_error l k).
Proof. induction l as [|x l IH]; intros [|k] f; cbn; auto. Qed.

Lemma nth_error_update_nth_other : forall {A} (l : list A) k k' f, k <> k' ->
  nth_error (update_nth l k f) k' = nth_error l k'.
Proof. induction l as [|x l IH]; intros [|k] [|k'] f H; cbn; auto; try lia; try (apply IH; lia). Qed.

Lemma find_update_same : forall p root f, p <> [] ->
  find_item (update_item root p f) p = option_map f (find_item root p).
Proof.
  induction p as [|k rest IH]; intros root f Hne; [congruence|].
  destruct rest as [|k2 rest'].
  - cbn [update_item find_item]. rewrite nth_error_update_nth_same. destruct (nth_error root k); reflexivity.
  - cbn [update_item]. cbn [find_item]. rewrite nth_error_update_nth_same.
    destruct (nth_error root k) as [it|] eqn:E; cbn [option_map]; [|reflexivity].
    destruct it as [a b c d e s]. cbn [it_sub]. destruct s as [sl|]; [|reflexivity].
    apply (IH sl f). discriminate.
Qed.

(* an update at p leaves the theorem recorded at any position that does not
   extend p untouched (ancestors of p keep their own theorem) *)
Lemma thv_update_other : forall p root f q, ~ prefix p q ->
  thv (update_item root p f) q = thv root q.
Proof.
  induction p as [|k rest IH]; intros root f q Hnp; [reflexivity|].
  destruct q as [|k' qrest]; [reflexivity|].
  unfold thv. destruct (Nat.eq_dec k k') as [<- | Hne].
  - destruct rest as [|k2 rest'].
    + exfalso. apply Hnp. exists qrest. reflexivity.
    + cbn [update_item]. cbn [find_item]. rewrite nth_error_update_nth_same.
      destruct (nth_error root k) as [it|] eqn:E; cbn [option_map]; [|reflexivity].
      destruct it as [a b c d e s]. destruct qrest as [|k3 qrest']; [reflexivity|].
      cbn [it_sub]. destruct s as [sl|]; [|reflexivity].
      assert (Hnp' : ~ prefix (k2 :: rest') (k3 :: qrest')).
      { intros [r Er]. apply Hnp. exists r. cbn. rewrite Er. reflexivity. }
      apply (IH sl f (k3 :: qrest') Hnp').
  - assert (E : nth_error (update_item root (k :: rest) f) k' = nth_error root k').
    { destruct rest; cbn [update_item]; apply nth_error_update_nth_other; exact Hne. }
    cbn [find_item]. rewrite E. reflexivity.
Qed.

(* set_th does not change the structure below the item *)
Lemma thv_set_th_same : forall p root x it, p <> [] -> find_item root p = Some it ->
  thv (update_item root p (set_th x)) p = x.
Proof.
  intros p root x it Hne H. unfold thv. rewrite find_update_same by exact Hne. rewrite H. cbn.
  destruct it. reflexivity.
Qed.

Lemma find_prefix_exists : forall p root r x, p <> [] -> find_item root (p ++ r) = Some x -> find_item root p <> None.
Proof.
  induction p as [|k rest IH]; intros root r x Hne H; [congruence|].
  cbn [app find_item] in *. destruct (nth_error root k) as [it|]; [|discriminate].
  destruct rest as [|k2 rest'].
  - discriminate.
  - cbn [app] in H. destruct (it_sub it) as [sl|]; [|discriminate].
    apply (IH sl r x); [discriminate | exact H].
Qed.

(* ------------------------------------------------------------------ *)

Section CS.
Variable kfx : fixes.
Variable thy : string -> option thm.
Variable macros : string -> option macro.
Variable check_level : nat.

(* The inductive closure of the rule functions under the checker's
   "can_prove + typing gate" weakening. *)
Inductive Good : thm -> Prop :=
| G_prim : forall rule args prems r s,
    Forall Good prems -> apply_prim kfx rule args prems = Some r ->
    can_prove r s = true -> check_thm_type s = true -> Good s
| G_thy : forall n r s, thy n = Some r -> can_prove r s = true -> check_thm_type s = true -> Good s
| G_var : forall n T s, can_prove (r_mk_VAR n T) s = true -> check_thm_type s = true -> Good s
| G_macro : forall rule m l args prems r s,
    macros rule = Some m -> m_level m = Some l -> l <= check_level ->
    Forall Good prems -> m_eval m args prems = Some r ->
    can_prove r s = true -> check_thm_type s = true -> Good s
| G_weaken : forall r s, Good r -> can_prove r s = true -> check_thm_type s = true -> Good s.

Definition Inv (root : list item) (p : iid) : Prop :=
  forall q t, vis p q -> thv root q = Some t -> Good t.

Lemma prev_ths_good : forall root self prevs ths,
  Inv root self -> prev_ths root self prevs = Some ths -> Forall Good ths.
Proof.
  intros root self prevs. induction prevs as [|p rest IH]; intros ths HI H; cbn [prev_ths] in H.
  - inversion H. constructor.
  - destruct (can_depend_on self p) eqn:Ec; [|discriminate].
    destruct (find_item root p) as [it|] eqn:Ef; [|discriminate].
    destruct (it_th it) as [th|] eqn:Et; [|discriminate].
    destruct (prev_ths root self rest) as [ths'|] eqn:Er; [|discriminate].
    inversion H; subst. constructor; [|apply IH; auto].
    apply (HI p th); [apply can_depend_on_vis; exact Ec|]. unfold thv. rewrite Ef. exact Et.
Qed.

(* what a successfully finished item records *)
Lemma finish_item_spec : forall root path stated res gaps root' gaps',
  finish_item root path stated res gaps = Some (root', gaps') ->
  exists r s, res = Some r /\ can_prove r s = true /\ check_thm_type s = true /\
              (stated = Some s \/ (stated = None /\ s = r)) /\
              root' = update_item root path (set_th (Some s)) /\ gaps' = gaps.
Proof.
  intros root path stated res gaps root' gaps' H. unfold finish_item in H.
  destruct res as [r|]; [|discriminate].
  destruct stated as [s|].
  - destruct (can_prove r s) eqn:Ec; [|discriminate]. destruct (check_thm_type s) eqn:Et; [|discriminate].
    inversion H; subst. exists r, s. auto 10.
  - destruct (check_thm_type r) eqn:Et; [|discriminate]. inversion H; subst. exists r, r.
    split; [reflexivity|]. split; [|auto 10].
    unfold can_prove. rewrite tm_eqb_refl. cbn. unfold subset_tm. apply forallb_forall.
    intros x Hx. apply mem_tm_in. exact Hx.
Qed.

(* result of one item check: the item's recorded theorem (if any) is Good and
   nothing outside the item's own subtree changed *)
Definition item_post (root : list item) (p : iid) (root' : list item) : Prop :=
  (forall t, thv root' p = Some t -> Good t) /\
  (forall q, ~ prefix p q -> thv root' q = thv root q).

Definition chk_ok (chk : list item -> iid -> list thm -> option cstate) : Prop :=
  forall root p gaps root' gaps', p <> [] ->
    chk root p gaps = Some (root', gaps') -> Inv root p -> item_post root p root'.

Lemma prefix_child : forall p k q, prefix (p ++ [k]) q -> prefix p q.
Proof. intros p k q [r ->]. exists ([k] ++ r). rewrite app_assoc. reflexivity. Qed.

Lemma child_not_prefix : forall p j k q, j <> k -> q = p ++ [j] -> ~ prefix (p ++ [k]) q.
Proof.
  intros p j k q Hne -> [r E]. rewrite <- app_assoc in E. apply app_inv_head in E. cbn in E. inversion E. congruence.
Qed.

Lemma iter_children_ok : forall chk, chk_ok chk -> forall path todo k st st',
  iter_children chk path k st todo = Some st' ->
  (forall q t, vis path q -> thv (fst st) q = Some t -> Good t) ->
  (forall j t, j < k -> thv (fst st) (path ++ [j]) = Some t -> Good t) ->
  (forall j t, j < k + todo -> thv (fst st') (path ++ [j]) = Some t -> Good t) /\
  (forall q, ~ prefix path q \/ (exists j, j < k /\ prefix (path ++ [j]) q) -> thv (fst st') q = thv (fst st) q).
Proof.
  intros chk Hchk path. induction todo as [|todo IH]; intros k st st' H Hvis Hdone; cbn [iter_children] in H.
  - inversion H; subst. split; [intros j t Hj; apply Hdone; lia | reflexivity].
  - destruct st as [root gaps]. cbn [fst snd] in *.
    destruct (chk root (path ++ [k]) gaps) as [[root1 gaps1]|] eqn:Ec; [|discriminate].
    assert (Hne : path ++ [k] <> []) by (destruct path; discriminate).
    assert (HI : Inv root (path ++ [k])).
    { intros q t Hv Ht. apply vis_child in Hv. destruct Hv as [Hv | [j [Hj ->]]]; [eapply Hvis; eauto | eapply Hdone; eauto]. }
    destruct (Hchk _ _ _ _ _ Hne Ec HI) as [Hp1 Hp2].
    assert (Hvis1 : forall q t, vis path q -> thv root1 q = Some t -> Good t).
    { intros q t Hv Ht. rewrite Hp2 in Ht; [eapply Hvis; eauto|].
      intro Hpre. apply prefix_child in Hpre. eapply vis_not_prefix; eauto. }
    assert (Hdone1 : forall j t, j < S k -> thv root1 (path ++ [j]) = Some t -> Good t).
    { intros j t Hj Ht. destruct (Nat.eq_dec j k) as [-> | Hjk]; [apply Hp1; exact Ht|].
      rewrite Hp2 in Ht; [apply (Hdone j t); [lia | exact Ht]|]. eapply child_not_prefix; eauto. }
    destruct (IH (S k) (root1, gaps1) st' H Hvis1 Hdone1) as [R1 R2]. cbn [fst] in *.
    split; [intros j t Hj; apply R1; lia|].
    intros q Hq. rewrite R2.
    + apply Hp2. destruct Hq as [Hq | [j [Hj Hpre]]].
      * intro Hpre. apply Hq. eapply prefix_child; eauto.
      * intros [r2 E2]. destruct Hpre as [r1 E1]. rewrite E1 in E2. rewrite <- !app_assoc in E2.
        apply app_inv_head in E2. cbn in E2. inversion E2. lia.
    + destruct Hq as [Hq | [j [Hj Hpre]]]; [left; exact Hq | right; exists j; split; [lia | exact Hpre]].
Qed.

Lemma check_item_ok : forall fuel, chk_ok (check_item cfixes_on kfx thy macros true check_level fuel).
Proof.
  induction fuel as [|fuel IH]; intros root p gaps root' gaps' Hne H HI; [discriminate|].
  cbn [check_item] in H.
  destruct (find_item root p) as [[id rule args prevs th sub]|] eqn:Ef; [|discriminate].
  cbn [cfx_ids cfx_blank cfixes_on andb] in H.
  destruct (iid_eqb id p) eqn:Eid; [|discriminate]. cbn [negb] in H. apply iid_eqb_eq in Eid. subst id.
  (* generic closing argument for finish_item on the current root *)
  assert (Hclose : forall rt res g, find_item rt p <> None ->
            (forall q, ~ prefix p q -> thv rt q = thv root q) ->
            (forall r s, res = Some r -> can_prove r s = true -> check_thm_type s = true -> Good s) ->
            finish_item rt p th res g = Some (root', gaps') -> item_post root p root').
  { intros rt res g Hex Hsame Hg Hf. apply finish_item_spec in Hf.
    destruct Hf as [r [s [-> [Hc [Ht [_ [-> _]]]]]]]. split.
    - intros t Htv. destruct (find_item rt p) as [it|] eqn:E; [|congruence].
      rewrite (thv_set_th_same p rt (Some s) it Hne E) in Htv. inversion Htv; subst. eapply Hg; eauto.
    - intros q Hq. rewrite thv_update_other by exact Hq. apply Hsame. exact Hq. }
  assert (Hex0 : find_item root p <> None) by (rewrite Ef; discriminate).
  destruct (String.eqb rule "") eqn:R0.
  { destruct th as [t|]; [discriminate|]. inversion H; subst. split.
    - intros t Ht. unfold thv in Ht. rewrite Ef in Ht. discriminate.
    - reflexivity. }
  destruct (String.eqb rule "sorry") eqn:R1.
  { destruct th; discriminate. }
  destruct (String.eqb rule "theorem") eqn:R2.
  { destruct args; try discriminate. eapply (Hclose root); eauto.
    intros r s E Hc Ht. eapply G_thy; eauto. }
  destruct (String.eqb rule "variable") eqn:R3.
  { destruct args; try discriminate. eapply (Hclose root); eauto.
    intros r s E Hc Ht. inversion E; subst. eapply G_var; eauto. }
  destruct (String.eqb rule "subproof") eqn:R4.
  { destruct sub as [s|]; [|discriminate].
    destruct (iter_children (check_item cfixes_on kfx thy macros true check_level fuel) p 0 (root, gaps) (List.length s))
      as [[root1 gaps1]|] eqn:Ei; [|discriminate].
    destruct (List.length s) as [|n1] eqn:En; [discriminate|].
    destruct (find_item root1 (p ++ [n1])) as [last|] eqn:El; [|discriminate].
    destruct (iter_children_ok _ IH p (S n1) 0 (root, gaps) (root1, gaps1) Ei) as [K1 K2]; cbn [fst].
    - exact HI.
    - intros j t Hj. lia.
    - cbn [fst] in *. apply (Hclose root1 (it_th last) gaps1); [ | | | exact H].
      + eapply find_prefix_exists; eauto.
      + intros q Hq. apply K2. left. exact Hq.
      + intros r s0 E Hc Ht. eapply G_weaken; eauto. apply (K1 n1 r); [lia|]. unfold thv. rewrite El. exact E. }
  destruct (prev_ths root p prevs) as [ths|] eqn:Ep; [|discriminate].
  pose proof (prev_ths_good _ _ _ _ HI Ep) as Hg.
  destruct (is_prim rule) eqn:Rp.
  { eapply (Hclose root); eauto. intros r s E Hc Ht. eapply G_prim; eauto. }
  destruct (macros rule) as [m|] eqn:Em; [|discriminate].
  destruct (match m_level m with Some l => l <=? check_level | None => false end) eqn:Etr.
  { eapply (Hclose root); eauto. intros r s E Hc Ht.
    destruct (m_level m) as [l|] eqn:El; [|discriminate]. apply Nat.leb_le in Etr. eapply G_macro; eauto. }
  destruct (m_expand m p args (combine prevs ths)) as [s|] eqn:Ex; [|discriminate].
  set (root0 := update_item root p (set_sub (Some s))) in *.
  destruct (iter_children (check_item cfixes_on kfx thy macros true check_level fuel) p 0 (root0, gaps) (List.length s))
    as [[root1 gaps1]|] eqn:Ei; [|discriminate].
  destruct (List.length s) as [|n1] eqn:En; [discriminate|].
  destruct (find_item root1 (p ++ [n1])) as [last|] eqn:El; [|discriminate].
  assert (H0 : forall q, ~ prefix p q -> thv root0 q = thv root q) by (intros q Hq; apply thv_update_other; exact Hq).
  destruct (iter_children_ok _ IH p (S n1) 0 (root0, gaps) (root1, gaps1) Ei) as [K1 K2]; cbn [fst].
  - intros q t Hv Ht. rewrite H0 in Ht by (eapply vis_not_prefix; eauto). eapply HI; eauto.
  - intros j t Hj. lia.
  - cbn [fst] in *. apply (Hclose (update_item root1 p (set_sub None)) (it_th last) gaps1); [ | | | exact H].
    + rewrite find_update_same by exact Hne. pose proof (find_prefix_exists p root1 [n1] last Hne El) as Hx.
      destruct (find_item root1 p); [discriminate | congruence].
    + intros q Hq. rewrite thv_update_other by exact Hq. rewrite K2 by (left; exact Hq). apply H0. exact Hq.
    + intros r s0 E Hc Ht. eapply G_weaken; eauto. apply (K1 n1 r); [lia|]. unfold thv. rewrite El. exact E.
Qed.

(* The theorem: a proof accepted with gaps disallowed ends in a Good sequent. *)
Theorem check_sound : forall fuel prf th gaps root,
  check_proof cfixes_on kfx thy macros true check_level fuel prf = Accept (Some th) gaps root -> Good th.
Proof.
  intros fuel prf th gaps root H. unfold check_proof, check_top in H.
  destruct (iter_children (check_item cfixes_on kfx thy macros true check_level fuel) [] 0 (prf, []) (List.length prf))
    as [[root1 gaps1]|] eqn:Ei; [|discriminate].
  destruct (List.length prf) as [|n1] eqn:En; [discriminate|].
  destruct (nth_error root1 n1) as [last|] eqn:El; [|discriminate].
  injection H as E1 E2 E3.
  destruct (iter_children_ok _ (check_item_ok fuel) [] (S n1) 0 (prf, []) (root1, gaps1) Ei) as [K1 _]; cbn [fst].
  - intros q t [k [j [Hk _]]]. cbn in Hk. lia.
  - intros j t Hj. lia.
  - apply (K1 n1 th); [lia|]. unfold thv. cbn [app find_item fst]. rewrite El. exact E1.
Qed.

(* with gaps disallowed a placeholder is refused wherever the traversal meets it *)
Lemma sorry_refused : forall cfx fuel root p gaps id args prevs th sub,
  find_item root p = Some (Item id "sorry" args prevs th sub) ->
  check_item cfx kfx thy macros true check_level fuel root p gaps = None.
Proof.
  intros cfx fuel root p gaps id args prevs th sub H. destruct fuel as [|fuel]; [reflexivity|].
  cbn [check_item]. rewrite H. destruct (cfx_ids cfx && negb (iid_eqb id p)); [reflexivity|].
  cbn. destruct th; reflexivity.
Qed.

(* with gaps allowed it is reported, and nothing else happens *)
Lemma sorry_reported : forall fuel root p gaps args prevs g sub,
  find_item root p = Some (Item p "sorry" args prevs (Some g) sub) ->
  check_item cfixes_on kfx thy macros false check_level (S fuel) root p gaps = Some (root, gaps ++ [g]).
Proof.
  intros fuel root p gaps args prevs g sub H. cbn [check_item]. rewrite H.
  cbn [cfx_ids cfixes_on andb]. assert (E : iid_eqb p p = true) by (apply iid_eqb_eq; reflexivity). rewrite E. reflexivity.
Qed.

End CS.

(* a theorem extension is admitted as proved only on a gap-free accepted proof
   whose (Good) conclusion proves the stated theorem *)
Theorem extend_sound : forall kfx thy macros fuel stated prf,
  checked_extend_thm cfixes_on kfx thy macros fuel stated prf = Some (true, false) ->
  exists p r, prf = Some p /\ Good kfx thy macros 0 r /\ can_prove r stated = true.
Proof.
  intros kfx thy macros fuel stated prf H. unfold checked_extend_thm in H. destruct prf as [p|]; [|discriminate].
  cbn [cfx_extend cfixes_on] in H.
  destruct (check_proof cfixes_on kfx thy macros true 0 fuel p) as [|res gaps root] eqn:E; [discriminate|].
  destruct res as [r|]; [|discriminate]. destruct (can_prove r stated) eqn:Ec; [|discriminate].
  exists p, r. split; [reflexivity|]. split; [|exact Ec].
  eapply check_sound; eauto.
Qed.

