(* Props_C07.v — property theorems for C07 (only statements closed by [exact]). *)
From Coq Require Import List Bool Arith.
Import ListNotations.
From HolpyV Require Import PrecModel PrecSound.

(* For every operator table that passes the finite check [table_ok] (the table is
   regenerated from syntax/operator.py and the grammar of syntax/parser.py on every
   run, and [table_ok current_table = true] is re-proved by computation), the
   bracket-insertion algorithm of the printer produces, for every term of any
   depth, an AST that the grammar's precedence ladder derives with every operand at
   a level its rule admits at that position: the parser can only read it back
   with the same structure.
   PARTIAL with respect to C07: names, numerals, type annotations, literals and
   the text layer (tokens, line breaking, highlighting) are validated by the
   implementation round trip in the harness, not modelled. *)
Theorem C07_print_derivable : forall tb, table_ok tb = true ->
  forall t, pt_wf tb t = true -> forall e, e <= out_level tb (kind_of t) -> der tb e (pr tb t) = true.
Proof. exact print_derivable. Qed.
Print Assumptions C07_print_derivable.

(* the table of the pinned commit does not pass: neg is printed with priority 95
   as an argument of a binary operator but read at the level below all relations
   ("~a Mem S"), and append / cons shared priority 65 ("xs @ x # ys") *)
Definition historical_table : table := mkT
  [mkB 50 true 11 0; mkB 25 false 1 1; mkB 20 false 0 1; mkB 35 false 3 1; mkB 30 false 2 1;
   mkB 65 true 16 0; mkB 65 true 16 0; mkB 81 true 19 0; mkB 70 true 18 0; mkB 70 true 18 0;
   mkB 70 true 18 0; mkB 70 true 18 0; mkB 50 true 8 2; mkB 50 true 7 2; mkB 50 true 6 2;
   mkB 50 true 5 2; mkB 65 false 15 1; mkB 65 false 14 1; mkB 50 true 10 2; mkB 50 true 9 2;
   mkB 70 true 17 0; mkB 65 true 13 0; mkB 60 false 12 1]
  [mkU 95 95 4; mkU 95 95 20; mkU 95 95 21; mkU 95 95 22]
  23.

Example C07_historical_table_refuted :
  table_ok historical_table = false /\
  (* (~a) Mem S  printed without brackets is not derivable *)
  der historical_table 0 (pr historical_table (PBin 18 (PUn 0 PAtom) PAtom)) = false /\
  (* xs @ (x # ys) *)
  der historical_table 0 (pr historical_table (PBin 16 PAtom (PBin 17 PAtom PAtom))) = false.
Proof. vm_compute. auto. Qed.
