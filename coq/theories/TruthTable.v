(* TruthTable.v — propositional formulas over opaque atoms, truth-table
   entailment, and its specification (used as the verified validity oracle). *)
From Coq Require Import List Bool Arith Lia.
Import ListNotations.

Inductive pf :=
| PAtom (n : nat)
| PTrue | PFalse
| PNot (a : pf)
| PAnd (a b : pf) | POr (a b : pf) | PImp (a b : pf) | PIff (a b : pf) | PXor (a b : pf)
| PIte (c a b : pf).

Fixpoint pholds (v : nat -> bool) (f : pf) : bool :=
  match f with
  | PAtom n => v n
  | PTrue => true
  | PFalse => false
  | PNot a => negb (pholds v a)
  | PAnd a b => pholds v a && pholds v b
  | POr a b => pholds v a || pholds v b
  | PImp a b => implb (pholds v a) (pholds v b)
  | PIff a b => Bool.eqb (pholds v a) (pholds v b)
  | PXor a b => xorb (pholds v a) (pholds v b)
  | PIte c a b => if pholds v c then pholds v a else pholds v b
  end.

Fixpoint atoms_of (f : pf) : list nat :=
  match f with
  | PAtom n => [n]
  | PTrue | PFalse => []
  | PNot a => atoms_of a
  | PAnd a b | POr a b | PImp a b | PIff a b | PXor a b => atoms_of a ++ atoms_of b
  | PIte c a b => atoms_of c ++ atoms_of a ++ atoms_of b
  end.

Definition aval := list (nat * bool).
Fixpoint vfun (a : aval) (n : nat) : bool :=
  match a with
  | [] => false
  | (m, b) :: a' => if Nat.eqb n m then b else vfun a' n
  end.

Fixpoint all_avals (atoms : list nat) : list aval :=
  match atoms with
  | [] => [[]]
  | n :: rest => flat_map (fun a => [(n, true) :: a; (n, false) :: a]) (all_avals rest)
  end.

Definition entails_tt (G : list pf) (c : pf) : bool :=
  let atoms := flat_map atoms_of G ++ atoms_of c in
  forallb (fun a => implb (forallb (pholds (vfun a)) G) (pholds (vfun a) c)) (all_avals atoms).

(* ---------------- specification ---------------- *)

Lemma pholds_ext : forall f v w, (forall n, In n (atoms_of f) -> v n = w n) -> pholds v f = pholds w f.
Proof.
  induction f; intros v w H; cbn [pholds atoms_of] in *; try reflexivity.
  - apply H. left. reflexivity.
  - rewrite (IHf v w H). reflexivity.
  - rewrite (IHf1 v w), (IHf2 v w); auto; intros; apply H; apply in_or_app; auto.
  - rewrite (IHf1 v w), (IHf2 v w); auto; intros; apply H; apply in_or_app; auto.
  - rewrite (IHf1 v w), (IHf2 v w); auto; intros; apply H; apply in_or_app; auto.
  - rewrite (IHf1 v w), (IHf2 v w); auto; intros; apply H; apply in_or_app; auto.
  - rewrite (IHf1 v w), (IHf2 v w); auto; intros; apply H; apply in_or_app; auto.
  - rewrite (IHf1 v w), (IHf2 v w), (IHf3 v w); auto; intros; apply H; apply in_or_app; auto;
      right; apply in_or_app; auto.
Qed.

Definition restrict (v : nat -> bool) (atoms : list nat) : aval := map (fun n => (n, v n)) atoms.

Lemma restrict_in_all : forall v atoms, In (restrict v atoms) (all_avals atoms).
Proof.
  intros v. induction atoms as [|n rest IH]; cbn; [left; reflexivity|].
  apply in_flat_map. exists (restrict v rest). split; [exact IH|]. cbn. destruct (v n); auto.
Qed.

Lemma vfun_restrict : forall v atoms n, In n atoms -> vfun (restrict v atoms) n = v n.
Proof.
  intros v. induction atoms as [|m rest IH]; intros n Hin; [destruct Hin|]. cbn.
  destruct (Nat.eqb n m) eqn:E; [apply Nat.eqb_eq in E; subst; reflexivity|].
  destruct Hin as [->|Hin]; [rewrite Nat.eqb_refl in E; discriminate | auto].
Qed.

Theorem entails_tt_spec : forall G c,
  entails_tt G c = true <-> (forall v, (forall g, In g G -> pholds v g = true) -> pholds v c = true).
Proof.
  intros G c. unfold entails_tt. set (atoms := flat_map atoms_of G ++ atoms_of c). split.
  - intros H v Hg. rewrite forallb_forall in H. specialize (H (restrict v atoms) (restrict_in_all v atoms)).
    assert (EG : forallb (pholds (vfun (restrict v atoms))) G = true).
    { apply forallb_forall. intros g Hin. rewrite <- (Hg g Hin). apply pholds_ext. intros n Hn.
      apply vfun_restrict. unfold atoms. apply in_or_app. left. apply in_flat_map. exists g. auto. }
    rewrite EG in H. cbn in H. rewrite <- H. symmetry. apply pholds_ext. intros n Hn.
    apply vfun_restrict. unfold atoms. apply in_or_app. right. exact Hn.
  - intros H. apply forallb_forall. intros a _.
    destruct (forallb (pholds (vfun a)) G) eqn:E; [|reflexivity]. cbn. apply H.
    intros g Hg. rewrite forallb_forall in E. auto.
Qed.
