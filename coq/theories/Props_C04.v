(* Props_C04.v — property theorems for C04 (only statements closed by [exact]). *)
From Coq Require Import List String Bool Arith.
Import ListNotations.
From HolpyV Require Import Kernel Check CheckSound MacroTrust.

(* C04 is decided per input (translation validation): for every macro and input
   the harness runs the checker of the implementation on the expansion at trust
   level 0 and compares the sequent it establishes with what macro.eval reports.
   What that validation buys is this theorem about the checker model: when every
   evaluation of a macro trusted at level L is backed by a level-0 derivation of
   what it reports ([validated L]), everything the checker derives at trust level
   L is derivable with all macros expanded down to primitive rules, theorems and
   level-0 oracles. *)
Theorem C04_trust_level_conservative : forall kfx thy macros L,
  validated kfx thy macros L -> forall th, Good kfx thy macros L th -> Good kfx thy macros 0 th.
Proof. exact trust_level_conservative. Qed.
Print Assumptions C04_trust_level_conservative.

(* acceptance of the expansion by the checker yields a level-0 derivation
   (check_sound at trust level 0), the other half of [validated] *)
Theorem C04_expansion_acceptance_sound : forall kfx thy macros fuel prf th gaps root,
  check_proof cfixes_on kfx thy macros true 0 fuel prf = Accept (Some th) gaps root ->
  Good kfx thy macros 0 th.
Proof. intros kfx thy macros. exact (check_sound kfx thy macros 0). Qed.
Print Assumptions C04_expansion_acceptance_sound.
