(* LinSound.v — soundness of the Omega step functions and certificate checkers. *)
From Coq Require Import List ZArith Bool Lia.
Import ListNotations.
From HolpyV Require Import LinArith.
Open Scope Z_scope.

Lemma feval_cons2 : forall x i a b rest, feval x i (a :: b :: rest) = a * x i + feval x (S i) (b :: rest).
Proof. reflexivity. Qed.

(* linear combination of two factoids of the same length *)
Lemma feval_zip : forall c d f1 f2 x i, length f1 = length f2 -> f1 <> [] ->
  feval x i (zip_with (fun m n => c * n + d * m) f1 f2) = c * feval x i f2 + d * feval x i f1.
Proof.
  induction f1 as [|m f1 IH]; intros f2 x i Hl Hne; [congruence|].
  destruct f2 as [|n f2]; [discriminate|]. destruct f1 as [|m' f1].
  - destruct f2; [|discriminate]. cbn. lia.
  - destruct f2 as [|n' f2]; [discriminate|].
    change (zip_with (fun m0 n0 : Z => c * n0 + d * m0) (m :: m' :: f1) (n :: n' :: f2))
      with ((c * n + d * m) :: zip_with (fun m0 n0 : Z => c * n0 + d * m0) (m' :: f1) (n' :: f2)).
    assert (E : exists y ys, zip_with (fun m0 n0 : Z => c * n0 + d * m0) (m' :: f1) (n' :: f2) = y :: ys) by (cbn; eauto).
    destruct E as [y [ys E]]. rewrite E, feval_cons2, <- E, !feval_cons2.
    rewrite (IH (n' :: f2) x (S i)); [lia | cbn in *; lia | discriminate].
Qed.

Lemma feval_zip_add : forall f1 f2 x i, length f1 = length f2 -> f1 <> [] ->
  feval x i (zip_with Z.add f1 f2) = feval x i f1 + feval x i f2.
Proof.
  intros f1 f2 x i Hl Hne.
  assert (E : zip_with Z.add f1 f2 = zip_with (fun m n => 1 * n + 1 * m) f1 f2).
  { clear. revert f2. induction f1 as [|a f1 IH]; intros [|b f2]; cbn [zip_with]; try reflexivity. rewrite IH. f_equal. lia. }
  rewrite E, feval_zip by assumption. lia.
Qed.

Lemma fholds_iff : forall x f, fholds x f = true <-> 0 <= feval x 0 f.
Proof. intros. unfold fholds. apply Z.leb_le. Qed.

(* every integer solution of both factoids satisfies their real combination *)
Theorem real_shadow_sound : forall i f1 f2 f x, length f1 = length f2 ->
  combine_real i f1 f2 = Some f -> fholds x f1 = true -> fholds x f2 = true -> fholds x f = true.
Proof.
  intros i f1 f2 f x Hl H H1 H2. unfold combine_real in H.
  destruct ((0 <? nth i f1 0) && (0 <? - nth i f2 0) && Nat.ltb (S i) (length f1)) eqn:E; [|discriminate].
  apply andb_true_iff in E. destruct E as [E E3]. apply andb_true_iff in E. destruct E as [E1 E2].
  apply Z.ltb_lt in E1. apply Z.ltb_lt in E2. apply Nat.ltb_lt in E3. inversion H; subst. clear H.
  apply fholds_iff in H1. apply fholds_iff in H2. apply fholds_iff.
  rewrite feval_zip; [|exact Hl|destruct f1; [cbn in E3; lia | discriminate]].
  set (c0 := nth i f1 0) in *. set (d0 := - nth i f2 0) in *.
  assert (Hg : 0 < Z.gcd c0 d0) by (pose proof (Z.gcd_nonneg c0 d0); destruct (Z.eq_dec (Z.gcd c0 d0) 0) as [Ez|]; [apply Z.gcd_eq_0_l in Ez; lia | lia]).
  assert (Hc : 0 <= c0 / Z.gcd c0 d0) by (apply Z.div_pos; lia).
  assert (Hd : 0 <= d0 / Z.gcd c0 d0) by (apply Z.div_pos; lia).
  nia.
Qed.

(* key sum and constant *)
Fixpoint ksum (x : nat -> Z) (i : nat) (f : factoid) : Z :=
  match f with
  | [] => 0
  | [c] => 0
  | a :: rest => a * x i + ksum x (S i) rest
  end.

Lemma feval_ksum : forall f x i, f <> [] -> feval x i f = ksum x i f + last f 0.
Proof.
  induction f as [|a f IH]; intros x i Hne; [congruence|]. destruct f as [|b f]; [cbn; lia|].
  rewrite feval_cons2. change (ksum x i (a :: b :: f)) with (a * x i + ksum x (S i) (b :: f)).
  change (last (a :: b :: f) 0) with (last (b :: f) 0). rewrite IH by discriminate. lia.
Qed.

Lemma key_gcd_nonneg : forall f, 0 <= key_gcd f.
Proof. induction f as [|a f IH]; [cbn; lia|]. destruct f; [cbn; lia|]. cbn [key_gcd]. apply Z.gcd_nonneg. Qed.

Lemma ksum_div : forall g f x i, 0 < g -> (g | key_gcd f) -> ksum x i f = g * ksum x i (map (fun c => c / g) f).
Proof.
  intros g. induction f as [|a f IH]; intros x i Hg Hd; [cbn; lia|]. destruct f as [|b f]; [cbn; lia|].
  change (key_gcd (a :: b :: f)) with (Z.gcd a (key_gcd (b :: f))) in Hd.
  change (map (fun c => c / g) (a :: b :: f)) with (a / g :: map (fun c => c / g) (b :: f)).
  assert (E : exists y ys, map (fun c => c / g) (b :: f) = y :: ys) by (cbn; eauto). destruct E as [y [ys E]].
  change (ksum x i (a :: b :: f)) with (a * x i + ksum x (S i) (b :: f)).
  rewrite E. change (ksum x i (a / g :: y :: ys)) with (a / g * x i + ksum x (S i) (y :: ys)). rewrite <- E.
  assert (Ha : (g | a)) by (eapply Z.divide_trans; [exact Hd | apply Z.gcd_divide_l]).
  assert (Hr : (g | key_gcd (b :: f))) by (eapply Z.divide_trans; [exact Hd | apply Z.gcd_divide_r]).
  rewrite (IH x (S i) Hg Hr). destruct Ha as [k Hk]. subst a. rewrite Z.div_mul by lia. lia.
Qed.

Lemma last_map : forall (g : Z) f, f <> [] -> last (map (fun c => c / g) f) 0 = last f 0 / g.
Proof.
  induction f as [|a f IH]; intros Hne; [congruence|]. destruct f as [|b f]; [reflexivity|].
  change (map (fun c => c / g) (a :: b :: f)) with (a / g :: map (fun c => c / g) (b :: f)).
  assert (E : exists y ys, map (fun c => c / g) (b :: f) = y :: ys) by (cbn; eauto). destruct E as [y [ys E]].
  rewrite E. change (last (a / g :: y :: ys) 0) with (last (y :: ys) 0). rewrite <- E. apply IH. discriminate.
Qed.

(* dividing by the gcd of the variable coefficients and rounding the constant
   down keeps every integer solution *)
Theorem gcd_tighten_sound : forall f x, fholds x f = true -> fholds x (gcd_tighten f) = true.
Proof.
  intros f x H. unfold gcd_tighten. destruct (1 <? key_gcd f) eqn:E; [|exact H]. apply Z.ltb_lt in E.
  destruct f as [|a f]; [exact H|]. apply fholds_iff in H. apply fholds_iff.
  rewrite feval_ksum in H by discriminate. rewrite feval_ksum by discriminate.
  rewrite (ksum_div (key_gcd (a :: f)) (a :: f) x 0) in H by (try lia; apply Z.divide_refl).
  rewrite last_map by discriminate.
  set (g := key_gcd (a :: f)) in *. set (K := ksum x 0 (map (fun c => c / g) (a :: f))) in *. set (c := last (a :: f) 0) in *.
  assert (c = g * (c / g) + c mod g) by (apply Z.div_mod; lia).
  assert (0 <= c mod g < g) by (apply Z.mod_pos_bound; lia). nia.
Qed.

Lemma is_zero_key_ksum : forall f x i, is_zero_key f = true -> ksum x i f = 0.
Proof.
  induction f as [|a f IH]; intros x i H; [reflexivity|]. destruct f as [|b f]; [reflexivity|].
  change (is_zero_key (a :: b :: f)) with ((a =? 0) && is_zero_key (b :: f)) in H.
  apply andb_true_iff in H. destruct H as [H1 H2]. apply Z.eqb_eq in H1. subst.
  change (ksum x i (0 :: b :: f)) with (0 * x i + ksum x (S i) (b :: f)). rewrite IH by assumption. lia.
Qed.

Lemma false_factoid_fails : forall f x, is_false_factoid f = true -> fholds x f = false.
Proof.
  intros f x H. unfold is_false_factoid in H. apply andb_true_iff in H. destruct H as [H1 H2]. apply Z.ltb_lt in H2.
  unfold fholds. apply Z.leb_gt. destruct f as [|a f]; [cbn in H2; lia|].
  rewrite feval_ksum by discriminate. rewrite is_zero_key_ksum by assumption. lia.
Qed.

Lemma factoid_eqb_eq : forall a b, factoid_eqb a b = true -> a = b.
Proof.
  induction a as [|x a IH]; destruct b as [|y b]; cbn; try discriminate; [reflexivity|].
  intros H. apply andb_true_iff in H. destruct H as [H1 H2]. apply Z.eqb_eq in H1. subst. f_equal. auto.
Qed.

Lemma zip_length : forall g a b, length a = length b -> length (zip_with g a b) = length a.
Proof. induction a as [|x a IH]; destruct b; cbn; intros H; try discriminate; auto. Qed.

(* the factoid established by a derivation holds at every integer solution of the inputs *)
Lemma dfact_sound : forall inputs x d f, (forall g, In g inputs -> fholds x g = true) ->
  dfact inputs d = Some f -> fholds x f = true.
Proof.
  intros inputs x. induction d as [f0|i d1 IH1 d2 IH2|d IHd|d1 IH1 d2 IH2]; intros f Hin H; cbn [dfact] in H.
  - destruct (existsb (factoid_eqb f0) inputs) eqn:E; [|discriminate]. inversion H; subst.
    apply existsb_exists in E. destruct E as [g [Hg Eg]]. apply factoid_eqb_eq in Eg. subst. auto.
  - destruct (dfact inputs d1) as [f1|]; [|discriminate]. destruct (dfact inputs d2) as [f2|]; [|discriminate].
    destruct (Nat.eqb (length f1) (length f2)) eqn:El; [|discriminate]. apply Nat.eqb_eq in El.
    eapply real_shadow_sound; eauto.
  - destruct (dfact inputs d) as [f1|]; [|discriminate]. inversion H; subst. apply gcd_tighten_sound. auto.
  - destruct (dfact inputs d1) as [f1|]; [|discriminate]. destruct (dfact inputs d2) as [f2|]; [|discriminate].
    destruct (Nat.eqb (length f1) (length f2)) eqn:El; [|discriminate]. apply Nat.eqb_eq in El. inversion H; subst.
    specialize (IH1 f1 Hin eq_refl). specialize (IH2 f2 Hin eq_refl). apply fholds_iff in IH1. apply fholds_iff in IH2.
    apply fholds_iff. destruct f1 as [|a f1]; [destruct f2; [cbn; lia | discriminate]|].
    rewrite feval_zip_add by (assumption || discriminate). lia.
Qed.

(* a derivation accepted by the checker shows that the inputs have no integer solution *)
Theorem deriv_check_sound : forall inputs d, deriv_check inputs d = true ->
  forall x, all_hold x inputs = false.
Proof.
  intros inputs d H x. unfold deriv_check in H. destruct (dfact inputs d) as [f|] eqn:E; [|discriminate].
  destruct (all_hold x inputs) eqn:Ea; [|reflexivity]. exfalso.
  unfold all_hold in Ea. rewrite forallb_forall in Ea.
  pose proof (dfact_sound inputs x d f Ea E) as Hf. rewrite (false_factoid_fails f x H) in Hf. discriminate.
Qed.

(* a witness accepted by sat_ok satisfies every factoid *)
Theorem sat_ok_sound : forall fs m f, sat_ok fs m = true -> In f fs -> 0 <= feval (aget m) 0 f.
Proof.
  intros fs m f H Hin. unfold sat_ok, all_hold in H. rewrite forallb_forall in H. apply fholds_iff. auto.
Qed.

(* arithmetic core of the dark shadow: if  a*U + b*L >= (a-1)(b-1)  then some
   integer x satisfies  a*x + L >= 0  and  -b*x + U >= 0 *)
Theorem dark_shadow_core : forall a b L U, 0 < a -> 0 < b ->
  (a - 1) * (b - 1) <= a * U + b * L -> exists x, 0 <= a * x + L /\ 0 <= - b * x + U.
Proof.
  intros a b L U Ha Hb H. exists (- (L / a)).
  assert (HL : L = a * (L / a) + L mod a) by (apply Z.div_mod; lia).
  assert (Hm : 0 <= L mod a < a) by (apply Z.mod_pos_bound; lia).
  split; nia.
Qed.
