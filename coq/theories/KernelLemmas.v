(* KernelLemmas.v — basic facts about the kernel model: decidable equalities,
   alpha-equivalence as equality of name-erased terms. *)
From Coq Require Import List String Bool Arith Lia.
Import ListNotations.
From HolpyV Require Import Kernel.
Open Scope string_scope.
Open Scope list_scope.
Open Scope nat_scope.

(* induction principle for the nested type [ty] *)
Section TyInd.
Variable P : ty -> Prop.
Hypothesis HS : forall n, P (STVar n).
Hypothesis HT : forall n, P (TVar n).
Hypothesis HC : forall n args, Forall P args -> P (TConst n args).
Fixpoint ty_ind' (T : ty) : P T :=
  match T with
  | STVar n => HS n
  | TVar n => HT n
  | TConst n args =>
      HC n args ((fix go (l : list ty) : Forall P l :=
                    match l with
                    | [] => Forall_nil P
                    | x :: l' => Forall_cons x (ty_ind' x) (go l')
                    end) args)
  end.
End TyInd.

Lemma ty_eqb_eq : forall a b, ty_eqb a b = true <-> a = b.
Proof.
  induction a as [n|n|n args IH] using ty_ind'; destruct b as [m|m|m bargs]; cbn [ty_eqb];
    try (split; [discriminate | discriminate]).
  - rewrite String.eqb_eq. split; congruence.
  - rewrite String.eqb_eq. split; congruence.
  - rewrite andb_true_iff, String.eqb_eq.
    assert (H : forall ys,
      (fix go (xs ys : list ty) : bool :=
         match xs, ys with
         | [], [] => true
         | x :: xs', y :: ys' => ty_eqb x y && go xs' ys'
         | _, _ => false
         end) args ys = true <-> args = ys).
    { induction IH as [|x l Hx Hl IHl]; intros [|y ys]; try (split; [discriminate|discriminate]).
      - split; reflexivity.
      - rewrite andb_true_iff, Hx, IHl. split; [intros [-> ->]; reflexivity | intros E; inversion E; auto]. }
    rewrite H. split; [intros [-> ->]; reflexivity | intros E; inversion E; auto].
Qed.

Lemma ty_eqb_refl : forall a, ty_eqb a a = true.
Proof. intro a. apply ty_eqb_eq. reflexivity. Qed.

Lemma ty_eqb_sym : forall a b, ty_eqb a b = ty_eqb b a.
Proof.
  intros a b. destruct (ty_eqb a b) eqn:E.
  - apply ty_eqb_eq in E. subst b. symmetry. apply ty_eqb_refl.
  - destruct (ty_eqb b a) eqn:E2; [|reflexivity]. apply ty_eqb_eq in E2. subst b. rewrite ty_eqb_refl in E. discriminate.
Qed.

(* name erasure: alpha-equivalence is equality of erased terms *)
Fixpoint erase (t : tm) : tm :=
  match t with
  | Comb f a => Comb (erase f) (erase a)
  | Abs _ T b => Abs "" T (erase b)
  | _ => t
  end.

Lemma tm_eqb_erase : forall s t, tm_eqb s t = true <-> erase s = erase t.
Proof.
  induction s as [n T|n T|n T|f IHf a IHa|x T b IHb|k]; destruct t as [m U|m U|m U|g c|y U c|j];
    cbn [tm_eqb erase]; try (split; [discriminate | discriminate]).
  - rewrite andb_true_iff, String.eqb_eq, ty_eqb_eq. split; [intros [-> ->]; reflexivity | intros E; inversion E; auto].
  - rewrite andb_true_iff, String.eqb_eq, ty_eqb_eq. split; [intros [-> ->]; reflexivity | intros E; inversion E; auto].
  - rewrite andb_true_iff, String.eqb_eq, ty_eqb_eq. split; [intros [-> ->]; reflexivity | intros E; inversion E; auto].
  - rewrite andb_true_iff, IHf, IHa. split; [intros [-> ->]; reflexivity | intros E; inversion E; auto].
  - rewrite andb_true_iff, ty_eqb_eq, IHb. split; [intros [-> ->]; reflexivity | intros E; inversion E; auto].
  - rewrite Nat.eqb_eq. split; [intros ->; reflexivity | intros E; inversion E; auto].
Qed.

Lemma tm_eqb_refl : forall t, tm_eqb t t = true.
Proof. intro t. apply tm_eqb_erase. reflexivity. Qed.

Lemma tm_eqb_sym : forall s t, tm_eqb s t = true -> tm_eqb t s = true.
Proof. intros s t H. apply tm_eqb_erase. symmetry. apply tm_eqb_erase. exact H. Qed.

Lemma tm_eqb_trans : forall s t u, tm_eqb s t = true -> tm_eqb t u = true -> tm_eqb s u = true.
Proof.
  intros s t u H1 H2. apply tm_eqb_erase. apply tm_eqb_erase in H1. apply tm_eqb_erase in H2. congruence.
Qed.

Lemma mem_tm_spec : forall t l, mem_tm t l = true <-> exists x, In x l /\ tm_eqb t x = true.
Proof.
  induction l as [|y l IH]; cbn [mem_tm].
  - split; [discriminate | intros [x [[] _]]].
  - rewrite orb_true_iff, IH. split.
    + intros [H | [x [Hin He]]]; [exists y; split; [left; reflexivity | exact H] | exists x; split; [right; exact Hin | exact He]].
    + intros [x [[-> | Hin] He]]; [left; exact He | right; exists x; auto].
Qed.

Lemma mem_tm_in : forall t l, In t l -> mem_tm t l = true.
Proof. intros t l H. apply mem_tm_spec. exists t. split; [exact H | apply tm_eqb_refl]. Qed.

Lemma mem_tm_alpha : forall s t l, tm_eqb s t = true -> mem_tm t l = true -> mem_tm s l = true.
Proof.
  intros s t l He Hm. apply mem_tm_spec in Hm. destruct Hm as [x [Hin Hx]].
  apply mem_tm_spec. exists x. split; [exact Hin | eapply tm_eqb_trans; eauto].
Qed.

Lemma mem_tm_app : forall t l1 l2, mem_tm t (l1 ++ l2) = mem_tm t l1 || mem_tm t l2.
Proof. induction l1 as [|x l1 IH]; intros l2; cbn [mem_tm app]; [reflexivity | rewrite IH, orb_assoc; reflexivity]. Qed.

Lemma list_tm_eqb_mem : forall l1 l2 t, list_tm_eqb l1 l2 = true -> mem_tm t l1 = true -> mem_tm t l2 = true.
Proof.
  induction l1 as [|a l1 IH]; intros [|b l2] t H Hm; cbn in *; try discriminate.
  apply andb_true_iff in H. destruct H as [Hab Hl]. apply orb_true_iff in Hm. apply orb_true_iff.
  destruct Hm as [Hm | Hm]; [left; eapply tm_eqb_trans; eauto | right; eapply IH; eauto].
Qed.

(* every hypothesis of either argument is (up to alpha) among the merged ones *)
Lemma mem_add_hyps_l : forall cur new t, mem_tm t cur = true -> mem_tm t (add_hyps_tuple cur new) = true.
Proof.
  intros cur new t H. unfold add_hyps_tuple.
  destruct cur as [|c cur']; [discriminate|]. cbn [is_nil].
  destruct (list_tm_eqb new (c :: cur')); [exact H|]. rewrite mem_tm_app, H. reflexivity.
Qed.

Lemma mem_add_hyps_r : forall cur new t, mem_tm t new = true -> mem_tm t (add_hyps_tuple cur new) = true.
Proof.
  intros cur new t H. unfold add_hyps_tuple.
  destruct cur as [|c cur']; [exact H|]. cbn [is_nil].
  destruct (list_tm_eqb new (c :: cur')) eqn:E; [eapply list_tm_eqb_mem; eauto|].
  rewrite mem_tm_app. destruct (mem_tm t (c :: cur')) eqn:Hc; [reflexivity|]. cbn [orb].
  apply mem_tm_spec in H. destruct H as [x [Hin Hx]]. apply mem_tm_spec. exists x. split; [|exact Hx].
  apply filter_In. split; [exact Hin|]. apply negb_true_iff.
  destruct (mem_tm x (c :: cur')) eqn:Hxc; [|reflexivity].
  rewrite (mem_tm_alpha t x _ Hx Hxc) in Hc. discriminate.
Qed.

(* ... and nothing else is *)
Lemma in_add_hyps : forall cur new t, In t (add_hyps_tuple cur new) -> In t cur \/ In t new.
Proof.
  intros cur new t H. unfold add_hyps_tuple in H.
  destruct (is_nil cur); [right; exact H|]. destruct (list_tm_eqb new cur); [left; exact H|].
  apply in_app_or in H. destruct H as [H|H]; [left; exact H | right; apply filter_In in H; tauto].
Qed.
