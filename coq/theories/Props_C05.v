(* Props_C05.v — property theorems for C05. *)
From Coq Require Import List String Bool ZArith QArith.
Import ListNotations.
From HolpyV Require Import Kernel NumEval NumSound.
Open Scope string_scope.

(* The type-blind evaluators of data/nat.py, data/integer.py and data/real.py
   (rational fragment: + - * / unary -, inverse, Suc, of_nat, of_int, natural
   powers) compute the standard value of every ground term that has one at the
   evaluator's type; [sem] follows the type annotations (truncated subtraction
   on naturals, x / 0 = 0, exact rationals). *)
Theorem C05_nat_eval_sound : forall t v q, nat_eval t = Some v -> sem t = Some (NNat, q) -> (q == v)%Q.
Proof. exact nat_eval_sound. Qed.
Print Assumptions C05_nat_eval_sound.

Theorem C05_int_eval_sound : forall t v q, int_eval t = Some v -> sem t = Some (NInt, q) -> (q == v)%Q.
Proof. exact int_eval_sound. Qed.
Print Assumptions C05_int_eval_sound.

Theorem C05_real_eval_sound : forall t v q, real_eval t = Some v -> sem t = Some (NReal, q) -> (q == v)%Q.
Proof. exact real_eval_sound. Qed.
Print Assumptions C05_real_eval_sound.

(* With their type guards, the three evaluation macros accept a goal only if
   it is TRUE under the standard meaning (whenever the goal has one); a goal of
   another numeric type is rejected rather than asserted. *)
Theorem C05_nat_eval_macro_true : forall goal b, acc_nat_eval true goal = true -> sem_goal goal = Some b -> b = true.
Proof. exact nat_eval_macro_true. Qed.
Print Assumptions C05_nat_eval_macro_true.

Theorem C05_int_eval_macro_true : forall goal b, acc_int_eval true goal = true -> sem_goal goal = Some b -> b = true.
Proof. exact int_eval_macro_true. Qed.
Print Assumptions C05_int_eval_macro_true.

Theorem C05_real_eval_macro_true : forall goal b, acc_real_eval true goal = true -> sem_goal goal = Some b -> b = true.
Proof. exact real_eval_macro_true. Qed.
Print Assumptions C05_real_eval_macro_true.

(* History (before the "fix: ... check the numeric type" commit): without the
   guard, nat_eval accepts the false real-number fact (1::real) - 2 = 0. *)
Definition one_r := Const "one" RealT.
Definition two_r := Comb (Const "of_nat" (TFun NatT RealT)) (Comb (Const "bit0" (TFun NatT NatT)) (Const "one" NatT)).
Definition bad_goal :=
  Comb (Comb (Const "equals" (TFun RealT (TFun RealT BoolT)))
             (Comb (Comb (Const "minus" (TFun RealT (TFun RealT RealT))) one_r) two_r))
       (Const "zero" RealT).
Example C05_unguarded_refuted :
  acc_nat_eval false bad_goal = true /\ sem_goal bad_goal = Some false /\ acc_nat_eval true bad_goal = false.
Proof. repeat split; vm_compute; reflexivity. Qed.
