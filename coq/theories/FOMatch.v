(* FOMatch.v — model of logic/matcher.py first_order_match on first-order
   patterns (no schematic variable in head position), de Bruijn style: where the
   implementation replaces a bound variable by a fresh variable on both sides,
   the model compares indices and keeps the binder depth (definitions only). *)
From Coq Require Import List String Bool Arith.
Import ListNotations.
From HolpyV Require Import Kernel.
Open Scope string_scope.
Open Scope list_scope.
Open Scope nat_scope.

Record minst := mkM { m_sv : list (string * tm); m_ty : tyinst }.

Fixpoint head_of (t : tm) : tm := match t with Comb f _ => head_of f | _ => t end.
Definition is_svar (t : tm) : bool := match t with SVar _ _ => true | _ => false end.

(* is_fo_pattern *)
Fixpoint fo_pat (p : tm) : bool :=
  match p with
  | Comb f a => negb (is_svar (head_of f)) && fo_pat f && fo_pat a
  | Abs _ _ b => fo_pat b
  | _ => true
  end.

(* the implementation eta-expands the target when the pattern is an abstraction
   and the target is not: outside this model *)
Fixpoint needs_eta (p t : tm) : bool :=
  match p, t with
  | Comb f a, Comb g b => needs_eta f g || needs_eta a b
  | Abs _ _ b, Abs _ _ c => needs_eta b c
  | Abs _ _ _, _ => true
  | _, _ => false
  end.

Fixpoint fo_match (pat t : tm) (depth : nat) (I : minst) : option minst :=
  match pat with
  | SVar n T =>
      match lookup n (m_sv I) with
      | None =>
          if is_open t then None       (* a bound variable would escape *)
          else match get_type t with
               | Some U =>
                   match ty_match_incr T U (m_ty I) with
                   | Some s' => Some (mkM (m_sv I ++ [(n, t)]) s')
                   | None => None
                   end
               | None => None
               end
      | Some u => if tm_eqb u t then Some I else None
      end
  | Var n T =>
      match t with
      | Var m U =>
          if String.eqb n m then
            match ty_match_incr T U (m_ty I) with Some s' => Some (mkM (m_sv I) s') | None => None end
          else None
      | _ => None
      end
  | Const n T =>
      match t with
      | Const m U =>
          if String.eqb n m then
            match ty_match_incr T U (m_ty I) with Some s' => Some (mkM (m_sv I) s') | None => None end
          else None
      | _ => None
      end
  | Comb f a =>
      match t with
      | Comb g b =>
          match fo_match f g depth I with
          | Some I1 => fo_match a b depth I1
          | None => None
          end
      | _ => None
      end
  | Abs _ T b =>
      match t with
      | Abs _ U c =>
          match ty_match_incr T U (m_ty I) with
          | Some s' => fo_match b c (S depth) (mkM (m_sv I) s')
          | None => None
          end
      | _ => None
      end
  | Bound k =>
      match t with
      | Bound j => if Nat.eqb k j && Nat.ltb k depth then Some I else None
      | _ => None
      end
  end.

(* applying an instantiation: types first, then schematic variables (the
   replacements are closed, so nothing is lifted) *)
Fixpoint subst_sv (sv : list (string * tm)) (t : tm) : tm :=
  match t with
  | SVar n _ => match lookup n sv with Some u => u | None => t end
  | Comb f a => Comb (subst_sv sv f) (subst_sv sv a)
  | Abs x T b => Abs x T (subst_sv sv b)
  | _ => t
  end.

Definition apply_inst (I : minst) (p : tm) : tm := subst_sv (m_sv I) (tm_subst_type (m_ty I) p).

(* harness glue: 1 = same verdict and, on success, same instantiation
   (as a set of bindings, terms up to bound names) and the instance equals the target *)
Fixpoint sv_sub (a b : list (string * tm)) : bool :=
  match a with
  | [] => true
  | (n, u) :: a' => (match lookup n b with Some v => tm_eqb u v | None => false end) && sv_sub a' b
  end.
Fixpoint ty_sub (a b : tyinst) : bool :=
  match a with
  | [] => true
  | (n, U) :: a' => (match lookup n b with Some V => ty_eqb U V | None => false end) && ty_sub a' b
  end.

Definition case_fo_match (pat t : tm) (I0 : minst) (impl : option minst) : nat :=
  if negb (fo_pat pat) || needs_eta pat t then 5 else
  match fo_match pat t 0 I0, impl with
  | None, None => 1
  | Some A, Some B =>
      if sv_sub (m_sv A) (m_sv B) && sv_sub (m_sv B) (m_sv A) && ty_sub (m_ty A) (m_ty B) && ty_sub (m_ty B) (m_ty A)
      then (if tm_eqb (apply_inst A pat) t then 1 else 4) else 2
  | Some _, None => 3
  | None, Some _ => 0
  end.
