(* NnfSound.v — nnf preserves the meaning, yields a negation normal form, and leaves normal forms
   unchanged (hence is idempotent). *)
From Coq Require Import List Bool.
Import ListNotations.
From HolpyV Require Import Kernel Nnf.

Lemma nnfb_sem : forall v f neg, feval v (nnfb neg f) = if neg then negb (feval v f) else feval v f.
Proof.
  intros v f; induction f as [t| | |a IHa|a IHa b IHb|a IHa b IHb|a IHa b IHb]; intros neg; cbn [nnfb feval].
  - destruct neg; reflexivity.
  - destruct neg; reflexivity.
  - destruct neg; reflexivity.
  - rewrite IHa. destruct neg; cbn [negb]; [rewrite negb_involutive|]; reflexivity.
  - destruct neg; cbn [feval]; rewrite IHa, IHb; [rewrite negb_andb|]; reflexivity.
  - destruct neg; cbn [feval]; rewrite IHa, IHb; [rewrite negb_orb|]; reflexivity.
  - destruct neg; cbn [feval]; rewrite IHa, IHb; [|reflexivity].
    destruct (feval v a), (feval v b); reflexivity.
Qed.

Theorem nnf_sem : forall v f, feval v (nnf f) = feval v f.
Proof. intros v f. unfold nnf. rewrite nnfb_sem. reflexivity. Qed.

Lemma nnfb_normal : forall f neg, is_nnf (nnfb neg f) = true.
Proof.
  induction f as [t| | |a IHa|a IHa b IHb|a IHa b IHb|a IHa b IHb]; intros neg; cbn [nnfb].
  - destruct neg; reflexivity.
  - destruct neg; reflexivity.
  - destruct neg; reflexivity.
  - apply IHa.
  - destruct neg; cbn [is_nnf]; rewrite IHa, IHb; reflexivity.
  - destruct neg; cbn [is_nnf]; rewrite IHa, IHb; reflexivity.
  - destruct neg; cbn [is_nnf]; rewrite IHa, IHb; reflexivity.
Qed.

Theorem nnf_normal : forall f, is_nnf (nnf f) = true.
Proof. intros f. apply nnfb_normal. Qed.

Theorem nnf_fixed : forall f, is_nnf f = true -> nnf f = f.
Proof.
  unfold nnf.
  induction f as [t| | |a IHa|a IHa b IHb|a IHa b IHb|a IHa b IHb]; intros H; cbn [nnfb]; try reflexivity.
  - destruct a; cbn [is_nnf] in H; try discriminate H. reflexivity.
  - cbn [is_nnf] in H. apply andb_prop in H. destruct H as [Ha Hb]. rewrite (IHa Ha), (IHb Hb). reflexivity.
  - cbn [is_nnf] in H. apply andb_prop in H. destruct H as [Ha Hb]. rewrite (IHa Ha), (IHb Hb). reflexivity.
  - cbn [is_nnf] in H. apply andb_prop in H. destruct H as [Ha Hb]. rewrite (IHa Ha), (IHb Hb). reflexivity.
Qed.

Theorem nnf_idempotent : forall f, nnf (nnf f) = nnf f.
Proof. intros f. apply nnf_fixed. apply nnf_normal. Qed.
