(* Sem.v — finite standard-model semantics of holpy terms (definitions only).
   Everything is first-order data: a function value is the table of its outputs
   in the canonical enumeration order of its domain, so semantic equality of
   functions is structural equality of tables and no extensionality axiom is
   needed anywhere. *)
From Coq Require Import List String Bool Arith.
Import ListNotations.
From HolpyV Require Import Kernel.
Open Scope string_scope.
Open Scope list_scope.
Open Scope nat_scope.

(* semantic types: a free algebra, so the semantic type of a constant instance
   determines its type arguments *)
Inductive sty :=
| SB                                   (* booleans *)
| SD (k : nat)                         (* an atom domain with k+1 elements *)
| SF (a b : sty)                       (* full function space, as tables *)
| SC (n : string) (args : list sty).   (* uninterpreted type constructor *)

Inductive V :=
| VB (b : bool)
| VA (k : nat)
| VO (k : nat)
| VF (tbl : list V).

Fixpoint V_eqb (x y : V) : bool :=
  match x, y with
  | VB a, VB b => Bool.eqb a b
  | VA a, VA b => Nat.eqb a b
  | VO a, VO b => Nat.eqb a b
  | VF l1, VF l2 =>
      (fix go (l1 l2 : list V) : bool :=
         match l1, l2 with
         | [], [] => true
         | a :: l1', b :: l2' => V_eqb a b && go l1' l2'
         | _, _ => false
         end) l1 l2
  | _, _ => false
  end.

Fixpoint sty_eqb (a b : sty) : bool :=
  match a, b with
  | SB, SB => true
  | SD k, SD j => Nat.eqb k j
  | SF a1 b1, SF a2 b2 => sty_eqb a1 a2 && sty_eqb b1 b2
  | SC n xs, SC m ys =>
      String.eqb n m &&
      (fix go (xs ys : list sty) : bool :=
         match xs, ys with
         | [], [] => true
         | x :: xs', y :: ys' => sty_eqb x y && go xs' ys'
         | _, _ => false
         end) xs ys
  | _, _ => false
  end.

(* all tables of length n with entries from cod *)
Fixpoint tables (n : nat) (cod : list V) : list (list V) :=
  match n with
  | 0 => [[]]
  | S n' => flat_map (fun v => map (cons v) (tables n' cod)) cod
  end.

Section Model.
(* size-1 of the carrier of an uninterpreted type constructor instance *)
Variable DC : string -> list sty -> nat.

Fixpoint dom (s : sty) : list V :=
  match s with
  | SB => [VB true; VB false]
  | SD k => map VA (seq 0 (S k))
  | SF a b => map VF (tables (List.length (dom a)) (dom b))
  | SC n args => map VO (seq 0 (S (DC n args)))
  end.

(* type-variable assignments: TVar and STVar *)
Variable thT thS : string -> sty.

Fixpoint tysem (T : ty) : sty :=
  match T with
  | TVar n => thT n
  | STVar n => thS n
  | TConst n args =>
      let a := map tysem args in
      if String.eqb n "bool" then match a with [] => SB | _ => SC n a end
      else if String.eqb n "fun" then match a with x :: y :: _ => SF x y | _ => SC n a end
      else SC n a
  end.

Fixpoint index (v : V) (l : list V) : nat :=
  match l with
  | [] => 0
  | x :: l' => if V_eqb v x then 0 else S (index v l')
  end.

Definition app (f x : V) (A : sty) : V :=
  match f with
  | VF tbl => nth (index x (dom A)) tbl (VB false)
  | _ => VB false
  end.

(* interpretation of constants (by name and semantic type) and valuations of
   variables and schematic variables (by name and SYNTACTIC type: two variables
   with the same name and different type annotations are different variables) *)
Variable IC : string -> sty -> V.
Variable sigV sigS : string -> ty -> V.

Fixpoint eval (env : list (sty * V)) (t : tm) : sty * V :=
  match t with
  | SVar n T => (tysem T, sigS n T)
  | Var n T => (tysem T, sigV n T)
  | Const n T => let s := tysem T in (s, IC n s)
  | Comb f a =>
      let '(sf, vf) := eval env f in
      let '(_, va) := eval env a in
      match sf with
      | SF A B => (B, app vf va A)
      | _ => (SB, VB false)
      end
  | Abs _ T b =>
      let s := tysem T in
      let rs := map (fun v => eval ((s, v) :: env) b) (dom s) in
      (SF s (match rs with (r, _) :: _ => r | [] => SB end), VF (map snd rs))
  | Bound k => nth k env (SB, VB false)
  end.

Definition holds (t : tm) : bool := V_eqb (snd (eval [] t)) (VB true).

Definition thm_holds (th : thm) : bool :=
  implb (forallb holds (hyps th)) (holds (prop th)).

End Model.

(* ------------------------------------------------------------------ *)
(* Standard interpretation of the logical constants.  A table over a     *)
(* function space is built by tabulating a Coq function over [dom].      *)

Section Std.
Variable DC : string -> list sty -> nat.
Notation dom := (dom DC).

Definition tab1 (A : sty) (f : V -> V) : V := VF (map f (dom A)).
Definition tab2 (A B : sty) (f : V -> V -> V) : V := tab1 A (fun x => tab1 B (f x)).

Definition vb (v : V) : bool := match v with VB b => b | _ => false end.

(* table lookup: apply a function value of domain A to x *)
Definition vapp (A : sty) (f x : V) : V := app DC f x A.

Definition first_such (A : sty) (p : V -> bool) : V :=
  match filter p (dom A) with
  | v :: _ => v
  | [] => match dom A with v :: _ => v | [] => VB false end
  end.

(* IC_std n s: the standard meaning of the base-logic constants at every
   semantic type of the right shape; every other constant (including a logical
   name used at a foreign shape) is interpreted by [other]. *)
Definition IC_std (other : string -> sty -> V) (n : string) (s : sty) : V :=
  if String.eqb n "equals" then
    match s with
    | SF a (SF b SB) => tab2 a b (fun x y => VB (V_eqb x y))
    | _ => other n s
    end
  else if String.eqb n "implies" then
    match s with
    | SF SB (SF SB SB) => tab2 SB SB (fun x y => VB (implb (vb x) (vb y)))
    | _ => other n s
    end
  else if String.eqb n "all" then
    match s with
    | SF (SF a SB) SB => tab1 (SF a SB) (fun f => VB (forallb (fun x => vb (vapp a f x)) (dom a)))
    | _ => other n s
    end
  else if String.eqb n "exists" then
    match s with
    | SF (SF a SB) SB => tab1 (SF a SB) (fun f => VB (existsb (fun x => vb (vapp a f x)) (dom a)))
    | _ => other n s
    end
  else if String.eqb n "true" then match s with SB => VB true | _ => other n s end
  else if String.eqb n "false" then match s with SB => VB false | _ => other n s end
  else if String.eqb n "neg" then
    match s with SF SB SB => tab1 SB (fun x => VB (negb (vb x))) | _ => other n s end
  else if String.eqb n "conj" then
    match s with
    | SF SB (SF SB SB) => tab2 SB SB (fun x y => VB (vb x && vb y))
    | _ => other n s
    end
  else if String.eqb n "disj" then
    match s with
    | SF SB (SF SB SB) => tab2 SB SB (fun x y => VB (vb x || vb y))
    | _ => other n s
    end
  else if String.eqb n "IF" then
    match s with
    | SF SB (SF a (SF b c)) =>
        tab1 SB (fun p => tab2 a b (fun x y => if vb p then x else y))
    | _ => other n s
    end
  else if String.eqb n "Some" then
    match s with
    | SF (SF a SB) b => tab1 (SF a SB) (fun f => first_such a (fun x => vb (vapp a f x)))
    | _ => other n s
    end
  else if String.eqb n "The" then
    match s with
    | SF (SF a SB) b => tab1 (SF a SB) (fun f => first_such a (fun x => vb (vapp a f x)))
    | _ => other n s
    end
  else if String.eqb n "_VAR" then
    match s with
    | SF a SB => tab1 a (fun _ => VB true)
    | _ => other n s
    end
  else other n s.




End Std.

