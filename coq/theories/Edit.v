(* Edit.v — model of the structural editing operations of server/method.py
   (ProofState.add_line_before, remove_line, set_line, replace_id) over the item
   trees of Check.v, and the well-numberedness predicate.  Definitions only. *)
From Coq Require Import List String Bool Arith.
Import ListNotations.
From HolpyV Require Import Kernel Check.
Open Scope string_scope.
Open Scope list_scope.
Open Scope nat_scope.

(* ProofItem.incr_proof_item / decr_proof_item (ids and prevs, subproofs included) *)
Fixpoint incr_item (it : item) (start : iid) (n : nat) : item :=
  let 'Item id rule args prevs th sub := it in
  Item (incr_id_after id start n) rule args (map (fun p => incr_id_after p start n) prevs) th
       (match sub with
        | Some l => Some ((fix go (l : list item) : list item :=
                             match l with [] => [] | x :: l' => incr_item x start n :: go l' end) l)
        | None => None
        end).

Fixpoint decr_item (it : item) (rem : iid) : item :=
  let 'Item id rule args prevs th sub := it in
  Item (decr_id id rem) rule args (map (fun p => decr_id p rem) prevs) th
       (match sub with
        | Some l => Some ((fix go (l : list item) : list item :=
                             match l with [] => [] | x :: l' => decr_item x rem :: go l' end) l)
        | None => None
        end).

Fixpoint replace_prevs (it : item) (old new : iid) : item :=
  let 'Item id rule args prevs th sub := it in
  Item id rule args (map (fun p => if iid_eqb p old then new else p) prevs) th
       (match sub with
        | Some l => Some ((fix go (l : list item) : list item :=
                             match l with [] => [] | x :: l' => replace_prevs x old new :: go l' end) l)
        | None => None
        end).

(* Proof.get_parent_proof followed by an update of that item list; None = ProofStateException *)
Fixpoint update_sub (items : list item) (path : iid) (f : list item -> option (list item)) : option (list item) :=
  match path with
  | [] => f items
  | k :: rest =>
      match nth_error items k with
      | Some (Item a b c d e (Some s)) =>
          match update_sub s rest f with
          | Some s' => Some (firstn k items ++ [Item a b c d e (Some s')] ++ skipn (S k) items)
          | None => None
          end
      | _ => None
      end
  end.

Definition blank (id : iid) : item := Item id "" ANone [] None None.

Definition add_line_before (root : list item) (id : iid) (n : nat) : option (list item) :=
  match id with
  | [] => None
  | _ =>
      let split := last id 0 in let pre := removelast id in
      update_sub root pre (fun items =>
        Some (firstn split items ++ map (fun i => blank (pre ++ [split + i])) (seq 0 n)
              ++ map (fun it => incr_item it id n) (skipn split items)))
  end.

Definition remove_line (root : list item) (id : iid) : option (list item) :=
  match id with
  | [] => None
  | _ =>
      let split := last id 0 in
      update_sub root (removelast id) (fun items =>
        Some (firstn split items ++ map (fun it => decr_item it id) (skipn (S split) items)))
  end.

Definition set_line (root : list item) (id : iid) (it : item) : option (list item) :=
  match id with
  | [] => None
  | _ =>
      let split := last id 0 in
      update_sub root (removelast id) (fun items =>
        if split <? List.length items then Some (firstn split items ++ [it] ++ skipn (S split) items) else None)
  end.

Definition replace_id (root : list item) (old new : iid) : option (list item) :=
  match old with
  | [] => None
  | _ =>
      match update_sub root (removelast old) (fun items => Some (map (fun it => replace_prevs it old new) items)) with
      | Some root' => remove_line root' old
      | None => None
      end
  end.

(* ids are positions at every depth, every citation may be depended on and resolves *)
Fixpoint wn_items (fuel : nat) (root : list item) (prefix : iid) (k : nat) (items : list item) : bool :=
  match fuel with
  | 0 => false
  | S f =>
      match items with
      | [] => true
      | Item id rule args prevs th sub :: rest =>
          iid_eqb id (prefix ++ [k]) &&
          forallb (fun p => can_depend_on id p && match find_item root p with Some _ => true | None => false end) prevs &&
          (match sub with Some s => wn_items f root id 0 s | None => true end) &&
          wn_items f root prefix (S k) rest
      end
  end.

Definition well_numbered (root : list item) : bool := wn_items 1000 root [] 0 root.

(* structure-only comparison used by the harness: ids, rules, prevs, shape *)
Fixpoint item_shape_eqb (fuel : nat) (a b : item) : bool :=
  match fuel with
  | 0 => false
  | S f =>
      let 'Item i1 r1 _ p1 _ s1 := a in let 'Item i2 r2 _ p2 _ s2 := b in
      iid_eqb i1 i2 && String.eqb r1 r2 &&
      Nat.eqb (List.length p1) (List.length p2) && forallb (fun pq => iid_eqb (fst pq) (snd pq)) (combine p1 p2) &&
      match s1, s2 with
      | Some l1, Some l2 => Nat.eqb (List.length l1) (List.length l2) &&
                            forallb (fun xy => item_shape_eqb f (fst xy) (snd xy)) (combine l1 l2)
      | None, None => true
      | _, _ => false
      end
  end.

Definition shape_eqb (a b : list item) : bool :=
  Nat.eqb (List.length a) (List.length b) && forallb (fun xy => item_shape_eqb 1000 (fst xy) (snd xy)) (combine a b).
