(* Props_C16.v — property theorems for C16. *)
From Coq Require Import List ZArith Bool.
Import ListNotations.
From HolpyV Require Import LinArith LinSound.
Open Scope Z_scope.

(* Every integer solution of two factoids satisfies their real-shadow combination. *)
Theorem C16_real_shadow_sound : forall i f1 f2 f x, length f1 = length f2 ->
  combine_real i f1 f2 = Some f -> fholds x f1 = true -> fholds x f2 = true -> fholds x f = true.
Proof. exact real_shadow_sound. Qed.
Print Assumptions C16_real_shadow_sound.

(* gcd tightening keeps every integer solution. *)
Theorem C16_gcd_tighten_sound : forall f x, fholds x f = true -> fholds x (gcd_tighten f) = true.
Proof. exact gcd_tighten_sound. Qed.
Print Assumptions C16_gcd_tighten_sound.

(* Dark shadow: a solution of the dark inequality extends to an integer solution of the pair. *)
Theorem C16_dark_shadow_core : forall a b L U, 0 < a -> 0 < b ->
  (a - 1) * (b - 1) <= a * U + b * L -> exists x, 0 <= a * x + L /\ 0 <= - b * x + U.
Proof. exact dark_shadow_core. Qed.
Print Assumptions C16_dark_shadow_core.

(* A Derivation (ASM / RealCombine / GCDCheck / DirectContr) accepted by the
   checker shows that the given factoids have no integer solution. *)
Theorem C16_deriv_check_sound : forall inputs d, deriv_check inputs d = true -> forall x, all_hold x inputs = false.
Proof. exact deriv_check_sound. Qed.
Print Assumptions C16_deriv_check_sound.

(* A witness accepted by sat_ok satisfies every constraint. *)
Theorem C16_sat_ok_sound : forall fs m f, sat_ok fs m = true -> In f fs -> 0 <= feval (aget m) 0 f.
Proof. exact sat_ok_sound. Qed.
Print Assumptions C16_sat_ok_sound.

Example C16_deriv_example :
  deriv_check [[1; -3]; [-1; 1]] (DDirect (DAsm [1; -3]) (DAsm [-1; 1])) = true.
Proof. vm_compute. reflexivity. Qed.
