(* HarnessLib.v — glue evaluated by the generated case files (definitions only).
   Every case evaluates to a nat code; 1 always means "agrees / holds". *)
From Coq Require Import List String Bool Arith.
Import ListNotations.
From HolpyV Require Import Kernel Sem.
Open Scope string_scope.
Open Scope list_scope.
Open Scope nat_scope.

Definition opt_thm_eqb (a b : option thm) : bool :=
  match a, b with
  | Some x, Some y => thm_eqb x y
  | None, None => true
  | _, _ => false
  end.

Definition opt_tm_eqb (a b : option tm) : bool :=
  match a, b with
  | Some x, Some y => tm_eqb x y
  | None, None => true
  | _, _ => false
  end.

Definition opt_ty_eqb (a b : option ty) : bool :=
  match a, b with
  | Some x, Some y => ty_eqb x y
  | None, None => true
  | _, _ => false
  end.

(* one primitive-rule application: 1 agree, 0 result differs,
   2 typing verdict of the result differs *)
Definition case_rule (fx : fixes) (rule : string) (a : rarg) (prevs : list thm)
           (exp : option thm) (exp_typed : bool) : nat :=
  let r := apply_prim fx rule a prevs in
  if opt_thm_eqb r exp then
    match r with
    | Some th => if Bool.eqb (check_thm_type th) exp_typed then 1 else 2
    | None => 1
    end
  else 0.

