(* AletheSimp.v — model of the evaluation (acceptance) conditions of the boolean
   simplification rules of smt/veriT/verit_macro.py: not_simplify, and_simplify,
   or_simplify, implies_simplify (as repaired), equiv_simplify, bool_simplify.
   Each takes a single argument lhs <--> rhs and accepts it when rhs is one of the
   forms the rule allows for lhs.  Definitions only. *)
From Coq Require Import List String Bool Arith.
Import ListNotations.
From HolpyV Require Import TruthTable Alethe Alethe2.
Open Scope string_scope.
Open Scope list_scope.

(* term.And applied to the argument tuple *)
Fixpoint mk_and (l : list pf) : pf :=
  match l with
  | [] => PTrue
  | [a] => a
  | a :: rest => PAnd a (mk_and rest)
  end.

Definition is_true (f : pf) : bool := pf_eqb f PTrue.
Definition is_false (f : pf) : bool := pf_eqb f PFalse.

Definition acc_not_simplify (args prems : list pf) : option pf :=
  match args with
  | [PIff (PNot l as lhs) rhs as g] =>
      if (is_false l && is_true rhs) || (is_true l && is_false rhs) || pf_eqb lhs (PNot (PNot rhs))
      then Some g else None
  | _ => None
  end.

(* complementary: ~a = b or a = ~b *)
Definition compl (a b : pf) : bool := pf_eqb (PNot a) b || pf_eqb a (PNot b).

(* and_simplify, case 5: some p_i and a later p_j are complementary, or p_i is the negation of the
   conjunction of all conjuncts from some later position on *)
Fixpoint and_clash_with (ci : pf) (rest : list pf) : bool :=
  match rest with
  | [] => false
  | cj :: rest' => compl ci cj || pf_eqb ci (PNot (mk_and rest)) || and_clash_with ci rest'
  end.

Fixpoint and_clash (l : list pf) : bool :=
  match l with
  | [] => false
  | ci :: rest => and_clash_with ci rest || and_clash rest
  end.

Definition acc_and_simplify (args prems : list pf) : option pf :=
  match args with
  | [PIff lhs rhs as g] =>
      let conjs := strip_conj lhs in
      if pf_eqb (mk_and (filter (fun c => negb (is_true c)) conjs)) rhs
         || pf_eqb (mk_and (dedup_acc [] conjs)) rhs
         || (mem_pf PFalse conjs && is_false rhs)
         || (and_clash conjs && is_false rhs)
      then Some g else None
  | _ => None
  end.

Fixpoint or_clash_with (ci : pf) (rest : list pf) : bool :=
  match rest with
  | [] => false
  | cj :: rest' => compl ci cj || or_clash_with ci rest'
  end.

Fixpoint or_clash (l : list pf) : bool :=
  match l with
  | [] => false
  | ci :: rest => or_clash_with ci rest || or_clash rest
  end.

Definition subset_pf (a b : list pf) : bool := forallb (fun x => mem_pf x b) a.

(* or_simplify: at the first complementary pair the rule decides (accepts rhs = true, refuses anything else) *)
Definition acc_or_simplify (args prems : list pf) : option pf :=
  match args with
  | [PIff lhs rhs as g] =>
      let disjs := strip_disj lhs in
      if or_clash disjs then (if is_true rhs then Some g else None)
      else if pf_eqb (mk_or (filter (fun c => negb (is_false c)) disjs)) rhs
              || (subset_pf disjs (strip_disj rhs) && subset_pf (strip_disj rhs) disjs)
              || (mem_pf PTrue disjs && is_true rhs)
           then Some g else None
  | _ => None
  end.

(* implies_simplify; fx = true is the repaired case 9 ((P --> Q) --> Q <--> P | Q), fx = false the code before
   (the premise alone had to be (P --> Q) --> Q, the conclusion was not looked at) *)
Definition implies_case9 (fx : bool) (prem concl rhs : pf) : bool :=
  match prem, rhs with
  | PImp p1 p2, POr r1 r2 =>
      if fx then pf_eqb p1 r1 && pf_eqb p2 concl && pf_eqb concl r2
      else match p1 with
           | PImp p11 p12 => pf_eqb p11 r1 && pf_eqb p12 p2 && pf_eqb p2 r2
           | _ => false
           end
  | _, _ => false
  end.

Definition acc_implies_simplify_gen (fx : bool) (args prems : list pf) : option pf :=
  match args with
  | [PIff (PImp prem concl) rhs as g] =>
      if match rhs with PImp q1 q2 => pf_eqb prem (PNot q2) && pf_eqb concl (PNot q1) | _ => false end
         || (is_false prem && is_true rhs)
         || (is_true concl && pf_eqb concl rhs)
         || (is_true prem && pf_eqb concl rhs)
         || (is_false concl && pf_eqb (PNot prem) rhs)
         || (pf_eqb prem concl && is_true rhs)
         || (pf_eqb prem (PNot concl) && pf_eqb rhs concl)
         || (pf_eqb concl (PNot prem) && pf_eqb rhs concl)
         || implies_case9 fx prem concl rhs
      then Some g else None
  | _ => None
  end.

Definition acc_implies_simplify := acc_implies_simplify_gen true.

Definition acc_equiv_simplify (args prems : list pf) : option pf :=
  match args with
  | [PIff (PIff a b) rhs as g] =>
      if match rhs with PIff c d => pf_eqb a (PNot c) && pf_eqb b (PNot d) | _ => false end
         || (pf_eqb a b && is_true rhs)
         || (pf_eqb (PNot a) b && is_false rhs)
         || (pf_eqb (PNot b) a && is_false rhs)
         || (is_true a && pf_eqb b rhs)
         || (is_true b && pf_eqb a rhs)
         || (pf_eqb (PNot b) rhs && is_false a)
         || (pf_eqb (PNot a) rhs && is_false b)
      then Some g else None
  | _ => None
  end.

(* bool_simplify: the first shape that fits decides *)
Definition bool_simplify_ok (lhs rhs : pf) : bool :=
  match lhs, rhs with
  | PNot (PImp lp lq), PAnd rp rq => pf_eqb lp rp && pf_eqb (PNot lq) rq
  | PNot (POr lp lq), PAnd rp rq => pf_eqb (PNot lp) rp && pf_eqb (PNot lq) rq
  | PNot (PAnd lp lq), POr rp rq => pf_eqb (PNot lp) rp && pf_eqb (PNot lq) rq
  | PImp p1 (PImp p2 p3), PImp (PAnd q1 q2) q3 => pf_eqb p1 q1 && pf_eqb p2 q2 && pf_eqb p3 q3
  | PImp (PImp p1 p2) p3, POr q1 q2 => pf_eqb p1 q1 && pf_eqb p2 q2 && pf_eqb p3 q2
  | PAnd p1 (PImp p2 p3), PAnd q1 q2 => pf_eqb p1 p2 && pf_eqb p1 q1 && pf_eqb p3 q2
  | PAnd (PImp p1 p2) p3, PAnd q1 q2 => pf_eqb p1 p3 && pf_eqb p1 q1 && pf_eqb p2 q2
  | _, _ => false
  end.

Definition acc_bool_simplify (args prems : list pf) : option pf :=
  match args with
  | [PIff lhs rhs as g] => if bool_simplify_ok lhs rhs then Some g else None
  | _ => None
  end.

Definition rules_simp : list (string * (list pf -> list pf -> option pf)) :=
  [("verit_not_simplify", acc_not_simplify); ("verit_and_simplify", acc_and_simplify);
   ("verit_or_simplify", acc_or_simplify); ("verit_implies_simplify", acc_implies_simplify);
   ("verit_equiv_simplify", acc_equiv_simplify); ("verit_bool_simplify", acc_bool_simplify)].

Definition accept_simp (rule : string) (args prems : list pf) : option pf :=
  match lookup_rule rule rules_simp with
  | Some f => f args prems
  | None => None
  end.
