(* AletheResSound.v — the clause accepted by the model of th_resolution holds in every
   valuation in which the premises hold: every clause kept by resolve_order is a
   consequence of the premise clauses (removing duplicates, resolving on complementary
   literals), and the accepted clause contains the one that is left. *)
From Coq Require Import List String Bool Arith Lia.
Import ListNotations.
From HolpyV Require Import TruthTable Alethe AletheSound Alethe2 Alethe2Sound AletheRes.
Open Scope list_scope.

Lemma find_j_spec : forall a p2 j0 d j, find_j a p2 j0 = Some (d, j) ->
  exists b, nth_error p2 (j - j0) = Some b /\ j0 <= j /\
            match d with DLeft => b = PNot a | DRight => a = PNot b end.
Proof.
  intros a. induction p2 as [|b p2 IH]; intros j0 d j E; cbn [find_j] in E; [discriminate|].
  destruct (pf_eqb (PNot a) b) eqn:E1.
  - inversion E; subst. apply pf_eqb_eq in E1. exists b. rewrite Nat.sub_diag. cbn. auto.
  - destruct (pf_eqb a (PNot b)) eqn:E2.
    + inversion E; subst. apply pf_eqb_eq in E2. exists b. rewrite Nat.sub_diag. cbn. auto.
    + destruct (IH _ _ _ E) as [b' [Hn [Hle Hd]]]. exists b'. split; [|split; [lia | exact Hd]].
      replace (j - j0) with (S (j - S j0)) by lia. exact Hn.
Qed.

Lemma try_resolve_spec : forall p1 p2 i0 d i j, try_resolve p1 p2 i0 = Some (d, i, j) ->
  exists a b, nth_error p1 (i - i0) = Some a /\ i0 <= i /\ nth_error p2 j = Some b /\
              match d with DLeft => b = PNot a | DRight => a = PNot b end.
Proof.
  induction p1 as [|a p1 IH]; intros p2 i0 d i j E; cbn [try_resolve] in E; [discriminate|].
  destruct (find_j a p2 0) as [[d' j']|] eqn:Ef.
  - inversion E; subst. destruct (find_j_spec _ _ _ _ _ Ef) as [b [Hn [_ Hd]]]. rewrite Nat.sub_0_r in Hn.
    exists a, b. rewrite Nat.sub_diag. cbn. auto.
  - destruct (IH _ _ _ _ _ E) as [a' [b [Hn [Hle [Hn2 Hd]]]]]. exists a', b. split; [|split; [lia | auto]].
    replace (i - i0) with (S (i - S i0)) by lia. exact Hn.
Qed.

Section S.
Variable v : nat -> bool.
Notation H := (pholds v).
Definition chold (c : list pf) : Prop := existsb H c = true.

Lemma existsb_remove_at : forall l n x, nth_error l n = Some x -> existsb H l = H x || existsb H (remove_at n l).
Proof.
  induction l as [|y l IH]; intros n x E; [destruct n; discriminate|]. destruct n as [|n]; cbn in *.
  - inversion E; subst. reflexivity.
  - rewrite (IH _ _ E). destruct (H y), (H x); reflexivity.
Qed.

Lemma existsb_add_new : forall l acc, existsb H (add_new acc l) = existsb H acc || existsb H l.
Proof.
  induction l as [|t l IH]; intros acc; cbn [add_new existsb]; [rewrite orb_false_r; reflexivity|].
  destruct (mem_pf t acc) eqn:Em.
  - rewrite IH. apply mem_pf_in in Em. destruct (H t) eqn:Et; [|reflexivity].
    assert (existsb H acc = true) as -> by (apply existsb_exists; exists t; auto). reflexivity.
  - rewrite IH, existsb_app. cbn. rewrite orb_false_r, orb_assoc. reflexivity.
Qed.

Lemma resolvent_holds : forall A B ta tb x,
  chold A -> chold B -> nth_error A ta = Some x -> nth_error B tb = Some (PNot x) ->
  chold (add_new (remove_at ta A) (remove_at tb B)).
Proof.
  unfold chold. intros A B ta tb x HA HB EA EB. rewrite existsb_add_new.
  rewrite (existsb_remove_at _ _ _ EA) in HA. rewrite (existsb_remove_at _ _ _ EB) in HB. cbn [pholds] in HB.
  destruct (H x); cbn in *; [rewrite HB; apply orb_true_r | rewrite HA; reflexivity].
Qed.

Lemma find_pair_j_spec : forall props id1 rest a b ta tb, find_pair_j props id1 rest = Some (a, b, ta, tb) ->
  exists x, nth_error (clause_at props a) ta = Some x /\ nth_error (clause_at props b) tb = Some (PNot x).
Proof.
  intros props id1. induction rest as [|id2 rest IH]; intros a b ta tb E; cbn [find_pair_j] in E; [discriminate|].
  destruct (try_resolve (clause_at props id1) (clause_at props id2) 0) as [[[d i] j]|] eqn:Et; [|eauto].
  destruct (try_resolve_spec _ _ _ _ _ _ Et) as [x [y [Hx [_ [Hy Hd]]]]]. rewrite Nat.sub_0_r in Hx.
  destruct d; inversion E; subst.
  - exists x. auto.
  - exists y. auto.
Qed.

Lemma find_pair_spec : forall props remain a b ta tb, find_pair props remain = Some (a, b, ta, tb) ->
  exists x, nth_error (clause_at props a) ta = Some x /\ nth_error (clause_at props b) tb = Some (PNot x).
Proof.
  intros props. induction remain as [|id1 rest IH]; intros a b ta tb E; cbn [find_pair] in E; [discriminate|].
  destruct (find_pair_j props id1 rest) as [r|] eqn:Ej; [|eauto]. inversion E; subst. eapply find_pair_j_spec; eauto.
Qed.

Lemma clause_at_holds : forall props i x n, Forall chold props -> nth_error (clause_at props i) n = Some x -> chold (clause_at props i).
Proof.
  intros props i x n Hall E. unfold clause_at in *. destruct (nth_in_or_default i props []) as [Hin|Hd].
  - rewrite Forall_forall in Hall. auto.
  - rewrite Hd in E. destruct n; discriminate.
Qed.

Lemma set_nth_holds : forall props n c, Forall chold props -> chold c -> Forall chold (set_nth n c props).
Proof.
  induction props as [|p ps IH]; intros n c Hall Hc; [destruct n; constructor|]. inversion Hall; subst.
  destruct n; cbn [set_nth]; constructor; auto.
Qed.

Lemma res_loop_holds : forall fuel props remain, Forall chold props -> Forall chold (fst (res_loop fuel props remain)).
Proof.
  induction fuel as [|f IH]; intros props remain Hall; [exact Hall|]. cbn [res_loop].
  destruct remain as [|r1 [|r2 rest]]; try exact Hall.
  destruct (find_pair props (r1 :: r2 :: rest)) as [[[[a b] ta] tb]|] eqn:Ef; [|exact Hall].
  apply IH. destruct (find_pair_spec _ _ _ _ _ _ Ef) as [x [Ha Hb]].
  apply set_nth_holds; [exact Hall|]. unfold resolvent.
  eapply resolvent_holds; eauto using clause_at_holds.
Qed.

Lemma resolve_order_holds : forall prems concl, Forall chold prems -> resolve_order prems = Some concl -> chold concl.
Proof.
  intros prems concl Hall E. unfold resolve_order in E.
  set (props := map (dedup_acc []) prems) in *.
  assert (Hp : Forall chold props).
  { subst props. apply Forall_forall. intros c Hc. apply in_map_iff in Hc. destruct Hc as [c0 [<- Hc0]].
    unfold chold. rewrite existsb_dedup. rewrite Forall_forall in Hall. apply Hall. exact Hc0. }
  pose proof (res_loop_holds (List.length (initial_remain None props 0)) props (initial_remain None props 0) Hp) as Hl.
  destruct (res_loop _ props _) as [props' remain']. cbn [fst] in Hl.
  destruct remain' as [|i rest]; [discriminate|]. rewrite Forall_forall in Hl. apply Hl. eapply nth_error_In; eauto.
Qed.

Lemma strip_all_holds : forall sizes prems clauses, strip_all sizes prems = Some clauses ->
  (forall p, In p prems -> H p = true) -> Forall chold clauses.
Proof.
  induction sizes as [|n sizes IH]; intros prems clauses E Hp; destruct prems as [|p prems]; cbn [strip_all] in E; try discriminate.
  - inversion E. constructor.
  - destruct (strip_disj_n p n) as [c|] eqn:Es; [|discriminate].
    destruct (strip_all sizes prems) as [cs|] eqn:Ea; [|discriminate]. inversion E; subst.
    constructor; [|eapply IH; eauto; intros q Hq; apply Hp; right; exact Hq].
    unfold chold. rewrite <- (strip_disj_n_holds v _ _ _ Es). apply Hp. left. reflexivity.
Qed.

Lemma concl_ok_holds : forall concl cl, concl_ok concl cl = true -> chold concl -> H (mk_or cl) = true.
Proof.
  intros concl cl E Hc. unfold concl_ok in E. apply orb_true_iff in E. destruct E as [E|E].
  - rewrite holds_mk_or. unfold chold in Hc. apply existsb_exists in Hc. destruct Hc as [x [Hx Hh]].
    rewrite forallb_forall in E. apply existsb_exists. exists x. split; [apply mem_pf_in; auto | exact Hh].
  - destruct concl as [|c0 [|]]; try discriminate. destruct cl as [|c [|]]; try discriminate.
    apply pf_eqb_eq in E. subst c. unfold chold in Hc. cbn in *. rewrite orb_false_r in Hc. rewrite Hc. reflexivity.
Qed.

Lemma accept_res_sound_v : forall cl sizes prems c, accept_res cl sizes prems = Some c ->
  (forall p, In p prems -> H p = true) -> H c = true.
Proof.
  intros cl sizes prems c E Hp. unfold accept_res in E.
  destruct (negb _); [discriminate|].
  destruct (special_not_true cl prems) eqn:E1.
  { unfold special_not_true in E1. destruct cl; cbn in E1; [|discriminate].
    destruct prems as [|p [|]]; cbn in E1; try discriminate; destruct p; cbn in E1; try discriminate;
      destruct p; cbn in E1; try discriminate.
    specialize (Hp (PNot PTrue) (or_introl eq_refl)). cbn in Hp. discriminate Hp. }
  destruct (special_double_neg cl prems) eqn:E2.
  { unfold special_double_neg in E2. destruct cl as [|c1 [|]]; cbn in E2; try discriminate.
    destruct prems as [|p0 [|p1 [|]]]; cbn in E2; try discriminate; destruct p1; cbn in E2; try discriminate;
      destruct p1_1; cbn in E2; try discriminate; destruct p1_1; cbn in E2; try discriminate.
    apply andb_true_iff in E2. destruct E2 as [Ea Eb]. apply pf_eqb_eq in Ea, Eb. subst.
    cbn in E. injection E as Ec. subst c.
    pose proof (Hp _ (or_introl eq_refl)) as H0. pose proof (Hp _ (or_intror (or_introl eq_refl))) as H1.
    cbn in H1. rewrite H0 in H1. cbn in H1.
    match goal with |- H ?q = true => destruct (H q); [reflexivity | discriminate] end. }
  destruct (strip_all sizes prems) as [clauses|] eqn:Es; [|discriminate].
  destruct (resolve_order clauses) as [concl|] eqn:Er; [|discriminate].
  destruct (concl_ok concl cl) eqn:Ec; [|discriminate]. inversion E; subst.
  eapply concl_ok_holds; [exact Ec|]. eapply resolve_order_holds; [|exact Er]. eapply strip_all_holds; [exact Es | exact Hp].
Qed.

End S.

Theorem accept_res_sound : forall cl sizes prems c,
  accept_res cl sizes prems = Some c ->
  forall v, (forall p, In p prems -> pholds v p = true) -> pholds v c = true.
Proof. intros cl sizes prems c E v Hp. eapply accept_res_sound_v; eauto. Qed.

(* the loop does not run out of fuel: it stops because one clause is left or no pair resolves *)
Lemma remove_first_length : forall b l, In b l -> S (List.length (remove_first b l)) = List.length l.
Proof.
  intros b. induction l as [|y l IH]; intros Hin; [destruct Hin|]. cbn [remove_first].
  destruct (Nat.eqb b y) eqn:E; [reflexivity|]. cbn. f_equal. apply IH. destruct Hin as [->|Hin]; [|exact Hin].
  rewrite Nat.eqb_refl in E. discriminate.
Qed.

Lemma find_pair_j_in : forall props id1 rest a b ta tb, find_pair_j props id1 rest = Some (a, b, ta, tb) -> b = id1 \/ In b rest.
Proof.
  intros props id1. induction rest as [|id2 rest IH]; intros a b ta tb E; cbn [find_pair_j] in E; [discriminate|].
  destruct (try_resolve _ _ 0) as [[[d i] j]|].
  - destruct d; inversion E; subst; [right; left; reflexivity | left; reflexivity].
  - destruct (IH _ _ _ _ E) as [->|Hin]; [left; reflexivity | right; right; exact Hin].
Qed.

Lemma find_pair_in : forall props remain a b ta tb, find_pair props remain = Some (a, b, ta, tb) -> In b remain.
Proof.
  intros props. induction remain as [|id1 rest IH]; intros a b ta tb E; cbn [find_pair] in E; [discriminate|].
  destruct (find_pair_j props id1 rest) as [r|] eqn:Ej.
  - inversion E; subst. destruct (find_pair_j_in _ _ _ _ _ _ _ Ej) as [->|Hin]; [left; reflexivity | right; exact Hin].
  - right. eauto.
Qed.

Theorem res_loop_fuel : forall f props remain, List.length remain <= f ->
  res_loop f props remain = res_loop (S f) props remain.
Proof.
  induction f as [|f IH]; intros props remain Hl.
  - destruct remain; [reflexivity | cbn in Hl; lia].
  - destruct remain as [|r1 [|r2 rest]]; try reflexivity.
    change (res_loop (S f) props (r1 :: r2 :: rest)) with
      (match find_pair props (r1 :: r2 :: rest) with
       | None => (props, r1 :: r2 :: rest)
       | Some (a, b, ta, tb) => res_loop f (set_nth a (resolvent props a b ta tb) props) (remove_first b (r1 :: r2 :: rest))
       end).
    change (res_loop (S (S f)) props (r1 :: r2 :: rest)) with
      (match find_pair props (r1 :: r2 :: rest) with
       | None => (props, r1 :: r2 :: rest)
       | Some (a, b, ta, tb) => res_loop (S f) (set_nth a (resolvent props a b ta tb) props) (remove_first b (r1 :: r2 :: rest))
       end).
    destruct (find_pair props (r1 :: r2 :: rest)) as [[[[a b] ta] tb]|] eqn:Ef; [|reflexivity].
    apply IH. pose proof (remove_first_length b _ (find_pair_in _ _ _ _ _ _ Ef)) as Hr. lia.
Qed.

(* a resolution of two unit clauses p, ~p yields the empty clause; the accepted clause is then false
   and the premises are jointly unsatisfiable *)
Example accept_res_empty :
  accept_res [] [1; 1] [PAtom 0; PNot (PAtom 0)] = Some PFalse.
Proof. vm_compute. reflexivity. Qed.

Example accept_res_chain :
  accept_res [PAtom 2] [2; 2; 1] [POr (PAtom 0) (PAtom 1); POr (PNot (PAtom 0)) (PAtom 2); PNot (PAtom 1)] = Some (PAtom 2)
  /\ accept_res [PAtom 1] [2; 2; 1] [POr (PAtom 0) (PAtom 1); POr (PNot (PAtom 0)) (PAtom 2); PNot (PAtom 1)] = None.
Proof. split; vm_compute; reflexivity. Qed.
