(* Conservative.v — a definition of the accepted shape is conservative: every
   standard model extends, changing only the new constant, to a model of the
   defining equation. *)
From Coq Require Import List String Bool Arith Lia.
Import ListNotations.
From HolpyV Require Import Kernel KernelLemmas Sem SemLemmas Falsify Sound DefCheck.
Open Scope string_scope.
Open Scope list_scope.
Open Scope nat_scope.

(* ------------------------------------------------------------------ *)
(* semantic types: induction principle and decidable equality *)
Section StyInd.
Variable P : sty -> Prop.
Hypothesis HB : P SB.
Hypothesis HD : forall k, P (SD k).
Hypothesis HF : forall a b, P a -> P b -> P (SF a b).
Hypothesis HC : forall n args, Forall P args -> P (SC n args).
Fixpoint sty_ind' (s : sty) : P s :=
  match s with
  | SB => HB
  | SD k => HD k
  | SF a b => HF a b (sty_ind' a) (sty_ind' b)
  | SC n args =>
      HC n args ((fix go (l : list sty) : Forall P l :=
                    match l with
                    | [] => Forall_nil P
                    | x :: l' => Forall_cons x (sty_ind' x) (go l')
                    end) args)
  end.
End StyInd.

Lemma sty_eqb_eq : forall a b, sty_eqb a b = true <-> a = b.
Proof.
  induction a as [|k|a1 a2 IH1 IH2|n args IH] using sty_ind'; intros b; destruct b as [|j|b1 b2|m brgs]; cbn [sty_eqb];
    try (split; intros; congruence).
  - rewrite Nat.eqb_eq. split; congruence.
  - rewrite andb_true_iff, IH1, IH2. split; [intros [-> ->]; reflexivity | intros E; inversion E; auto].
  - rewrite andb_true_iff, String.eqb_eq.
    assert (L : (fix go (xs ys : list sty) : bool :=
                   match xs, ys with
                   | [], [] => true
                   | x :: xs', y :: ys' => sty_eqb x y && go xs' ys'
                   | _, _ => false
                   end) args brgs = true <-> args = brgs).
    { revert brgs. induction IH as [|x xs Hx Hxs IHl]; intros [|y ys]; try (split; intros; congruence).
      rewrite andb_true_iff, Hx, IHl. split; [intros [-> ->]; reflexivity | intros E; inversion E; auto]. }
    rewrite L. split; [intros [-> ->]; reflexivity | intros E; inversion E; auto].
Qed.

(* ------------------------------------------------------------------ *)
(* coincidence lemmas *)
Definition th_agree (thT thS thT' thS' : string -> sty) (ks : list tkey) : Prop :=
  forall b n, In (b, n) ks -> (if b then thS n else thT n) = (if b then thS' n else thT' n).

Lemma tysem_coincide : forall thT thS thT' thS' T,
  th_agree thT thS thT' thS' (ty_tvars T) -> tysem thT thS T = tysem thT' thS' T.
Proof.
  intros thT thS thT' thS'. induction T as [n|n|n args IH] using ty_ind'; intros H.
  - apply (H true n). left. reflexivity.
  - apply (H false n). left. reflexivity.
  - cbn [Sem.tysem].
    assert (E : map (tysem thT thS) args = map (tysem thT' thS') args).
    { cbn [ty_tvars] in H. induction IH as [|x xs Hx Hxs IHl]; [reflexivity|]. cbn [map flat_map] in *.
      rewrite Hx, IHl; [reflexivity | |]; intros b m Hin; apply H; apply in_or_app; auto. }
    rewrite E. reflexivity.
Qed.

Lemma th_agree_app : forall a b c d l1 l2, th_agree a b c d (l1 ++ l2) -> th_agree a b c d l1 /\ th_agree a b c d l2.
Proof. intros a b c d l1 l2 H. split; intros x n Hin; apply H; apply in_or_app; auto. Qed.

Lemma eval_ty_coincide : forall DC thT thS thT' thS' IC sigV sigS t env,
  th_agree thT thS thT' thS' (tm_tvars t) ->
  eval DC thT thS IC sigV sigS env t = eval DC thT' thS' IC sigV sigS env t.
Proof.
  intros DC thT thS thT' thS' IC sigV sigS. induction t as [n T|n T|n T|f IHf a IHa|x T b IHb|k]; intros env H; cbn [tm_tvars Sem.eval] in *.
  - rewrite (tysem_coincide _ _ _ _ T H). reflexivity.
  - rewrite (tysem_coincide _ _ _ _ T H). reflexivity.
  - rewrite (tysem_coincide _ _ _ _ T H). reflexivity.
  - apply th_agree_app in H. destruct H as [H1 H2]. rewrite (IHf _ H1), (IHa _ H2). reflexivity.
  - apply th_agree_app in H. destruct H as [H1 H2]. rewrite (tysem_coincide _ _ _ _ T H1).
    assert (E : forall l, map (fun v => eval DC thT thS IC sigV sigS ((tysem thT' thS' T, v) :: env) b) l =
                          map (fun v => eval DC thT' thS' IC sigV sigS ((tysem thT' thS' T, v) :: env) b) l)
      by (intro l; apply map_ext; intro v; apply IHb; exact H2).
    rewrite E. reflexivity.
  - reflexivity.
Qed.

Lemma eval_val_coincide : forall DC thT thS IC sigV sigS sigV' sigS' t env,
  (forall n U, In (false, n, U) (tm_fvars t) -> sigV n U = sigV' n U) ->
  (forall n U, In (true, n, U) (tm_fvars t) -> sigS n U = sigS' n U) ->
  eval DC thT thS IC sigV sigS env t = eval DC thT thS IC sigV' sigS' env t.
Proof.
  intros DC thT thS IC sigV sigS sigV' sigS'. induction t as [n T|n T|n T|f IHf a IHa|x T b IHb|k]; intros env HV HS; cbn [tm_fvars Sem.eval] in *;
    try reflexivity.
  - rewrite (HS n T); [reflexivity | left; reflexivity].
  - rewrite (HV n T); [reflexivity | left; reflexivity].
  - rewrite (IHf env), (IHa env); [reflexivity | | | |]; intros m U Hin; (apply HV || apply HS); apply in_or_app; auto.
  - assert (E : forall l, map (fun v => eval DC thT thS IC sigV sigS ((tysem thT thS T, v) :: env) b) l =
                          map (fun v => eval DC thT thS IC sigV' sigS' ((tysem thT thS T, v) :: env) b) l)
      by (intro l; apply map_ext; intro v; apply IHb; assumption).
    rewrite E. reflexivity.
Qed.

Lemma eval_IC_coincide : forall DC thT thS IC IC' sigV sigS c t env,
  (forall n s, n <> c -> IC' n s = IC n s) -> const_types c t = [] ->
  eval DC thT thS IC' sigV sigS env t = eval DC thT thS IC sigV sigS env t.
Proof.
  intros DC thT thS IC IC' sigV sigS c. induction t as [n T|n T|n T|f IHf a IHa|x T b IHb|k]; intros env H Hc; cbn [const_types Sem.eval] in *;
    try reflexivity.
  - destruct (String.eqb n c) eqn:E; [discriminate|]. apply String.eqb_neq in E. rewrite (H n _ E). reflexivity.
  - apply app_eq_nil in Hc. destruct Hc as [H1 H2]. rewrite (IHf _ H H1), (IHa _ H H2). reflexivity.
  - assert (E : forall l, map (fun v => eval DC thT thS IC' sigV sigS ((tysem thT thS T, v) :: env) b) l =
                          map (fun v => eval DC thT thS IC sigV sigS ((tysem thT thS T, v) :: env) b) l)
      by (intro l; apply map_ext; intro v; apply IHb; assumption).
    rewrite E. reflexivity.
Qed.

(* ------------------------------------------------------------------ *)
(* iterated tabulation *)
Section Tabs.
Variable DC : string -> list sty -> nat.

Lemma apps_tabs : forall ds f vs, Forall2 (fun v d => In v (dom DC d)) vs ds -> apps DC (tabs DC ds f) vs ds = f vs.
Proof.
  induction ds as [|d ds IH]; intros f vs H; inversion H; subst; cbn [apps tabs]; [reflexivity|].
  unfold tab1. rewrite (app_tabulate DC d _ x) by assumption. apply (IH (fun vs => f (x :: vs))). assumption.
Qed.

Lemma tabs_in_dom : forall ds r f,
  (forall vs, Forall2 (fun v d => In v (dom DC d)) vs ds -> In (f vs) (dom DC r)) ->
  In (tabs DC ds f) (dom DC (fold_right SF r ds)).
Proof.
  induction ds as [|d ds IH]; intros r f H; cbn [tabs fold_right].
  - apply H. constructor.
  - apply tab1_in_dom. intros x Hx. apply IH. intros vs Hvs. apply H. constructor; assumption.
Qed.

Lemma some_elem_in : forall s, In (some_elem DC s) (dom DC s).
Proof.
  intros s. unfold some_elem. destruct (dom DC s) as [|v l] eqn:E; [exfalso; eapply dom_nonempty; eauto|]. left. reflexivity.
Qed.
End Tabs.

(* ------------------------------------------------------------------ *)
(* matching a type against its own semantics recovers the type assignment *)
Fixpoint fun_arity_ok (T : ty) : bool :=
  match T with
  | TConst n args => (if String.eqb n "fun" then Nat.leb (List.length args) 2 else true) && forallb fun_arity_ok args
  | _ => true
  end.

Definition th_sound (th : list (tkey * sty)) (thT thS : string -> sty) : Prop :=
  forall b n s, assoc_k (b, n) th = Some s -> s = (if b then thS n else thT n).
Definition th_covers (th : list (tkey * sty)) (ks : list tkey) : Prop :=
  forall k, In k ks -> assoc_k k th <> None.
Definition th_mono (th th' : list (tkey * sty)) : Prop :=
  forall k, assoc_k k th <> None -> assoc_k k th' <> None.

Lemma bs_eqb_eq : forall a b, bs_eqb a b = true <-> a = b.
Proof.
  intros [b1 n1] [b2 n2]. unfold bs_eqb. cbn [fst snd]. rewrite andb_true_iff, String.eqb_eq.
  split; [intros [H1 H2]; apply eqb_prop in H1; subst; reflexivity | intros E; inversion E; subst; split; [apply eqb_reflx | reflexivity]].
Qed.

Lemma bs_eqb_refl : forall a, bs_eqb a a = true.
Proof. intro a. apply bs_eqb_eq. reflexivity. Qed.

Lemma match_var_ok : forall thT thS b n th, th_sound th thT thS ->
  exists th', (match assoc_k (b, n) th with Some _ => Some th | None => Some (((b, n), (if b then thS n else thT n)) :: th) end) = Some th' /\
    th_sound th' thT thS /\ th_covers th' [(b, n)] /\ th_mono th th'.
Proof.
  intros thT thS b n th Hs. destruct (assoc_k (b, n) th) as [s|] eqn:E.
  - exists th. split; [reflexivity|]. split; [exact Hs|]. split; [|intros k H; exact H].
    intros k [<-|[]]. rewrite E. discriminate.
  - eexists. split; [reflexivity|]. split; [|split].
    + intros b' n' s H. cbn [assoc_k] in H. destruct (bs_eqb (b', n') (b, n)) eqn:Eb.
      * apply bs_eqb_eq in Eb. inversion Eb; subst. inversion H. reflexivity.
      * apply (Hs _ _ _ H).
    + intros k [<-|[]]. cbn [assoc_k]. rewrite bs_eqb_refl. discriminate.
    + intros k H. cbn [assoc_k]. destruct (bs_eqb k (b, n)); [discriminate | exact H].
Qed.

Lemma sty_match_ok : forall thT thS T th, fun_arity_ok T = true -> th_sound th thT thS ->
  exists th', sty_match T (tysem thT thS T) th = Some th' /\ th_sound th' thT thS /\
              th_covers th' (ty_tvars T) /\ th_mono th th'.
Proof.
  intros thT thS. induction T as [n|n|n args IH] using ty_ind'; intros th Hw Hs.
  - apply (match_var_ok thT thS true n th Hs).
  - apply (match_var_ok thT thS false n th Hs).
  - (* the list of arguments against the list of their semantics *)
    assert (Hgo : forall th0, th_sound th0 thT thS -> forallb fun_arity_ok args = true ->
              exists th', (fix go (args : list ty) (l : list sty) (th : list (tkey * sty)) : option (list (tkey * sty)) :=
                             match args, l with
                             | [], [] => Some th
                             | a :: args', x :: l' =>
                                 match sty_match a x th with Some th' => go args' l' th' | None => None end
                             | _, _ => None
                             end) args (map (tysem thT thS) args) th0 = Some th' /\
                          th_sound th' thT thS /\ th_covers th' (flat_map ty_tvars args) /\ th_mono th0 th').
    { clear Hw Hs th. induction IH as [|x xs Hx Hxs IHl]; intros th0 Hs0 Hw0.
      - exists th0. split; [reflexivity|]. split; [exact Hs0|]. split; [intros k []|intros k H; exact H].
      - cbn [forallb] in Hw0. apply andb_true_iff in Hw0. destruct Hw0 as [Hwx Hwxs].
        destruct (Hx th0 Hwx Hs0) as [th1 [E1 [S1 [C1 M1]]]]. destruct (IHl th1 S1 Hwxs) as [th2 [E2 [S2 [C2 M2]]]].
        exists th2. cbn [map]. rewrite E1. split; [exact E2|]. split; [exact S2|]. split.
        + intros k Hin. cbn [flat_map] in Hin. apply in_app_or in Hin. destruct Hin as [Hin|Hin]; [apply M2, C1, Hin | apply C2, Hin].
        + intros k H. apply M2, M1, H. }
    cbn [fun_arity_ok] in Hw. apply andb_true_iff in Hw. destruct Hw as [Hw1 Hw2].
    cbn [Sem.tysem sty_match ty_tvars].
    destruct (String.eqb n "bool") eqn:Eb.
    + destruct args as [|x xs].
      * cbn [map]. exists th. split; [reflexivity|]. split; [exact Hs|]. split; [intros k []|intros k H; exact H].
      * cbn [map]. rewrite String.eqb_refl. apply (Hgo th Hs Hw2).
    + destruct (String.eqb n "fun") eqn:Ef.
      * destruct args as [|x [|y rest]].
        -- cbn [map]. rewrite String.eqb_refl. apply (Hgo th Hs Hw2).
        -- cbn [map]. rewrite String.eqb_refl. apply (Hgo th Hs Hw2).
        -- destruct rest as [|z rest]; [|cbn in Hw1; discriminate].
           cbn [map]. inversion IH as [|? ? Hx Hrest]; subst. inversion Hrest as [|? ? Hy _]; subst.
           cbn [forallb] in Hw2. apply andb_true_iff in Hw2. destruct Hw2 as [Hwx Hw2]. apply andb_true_iff in Hw2. destruct Hw2 as [Hwy _].
           destruct (Hx th Hwx Hs) as [th1 [E1 [S1 [C1 M1]]]]. destruct (Hy th1 Hwy S1) as [th2 [E2 [S2 [C2 M2]]]].
           exists th2. rewrite E1. split; [exact E2|]. split; [exact S2|]. split.
           ++ intros k Hin. cbn [flat_map] in Hin. rewrite app_nil_r in Hin. apply in_app_or in Hin.
              destruct Hin as [Hin|Hin]; [apply M2, C1, Hin | apply C2, Hin].
           ++ intros k H. apply M2, M1, H.
      * rewrite String.eqb_refl. apply (Hgo th Hs Hw2).
Qed.

Lemma th_of_agree : forall th thT thS ks, th_sound th thT thS -> th_covers th ks ->
  th_agree (th_of th false) (th_of th true) thT thS ks.
Proof.
  intros th thT thS ks Hs Hc b n Hin. pose proof (Hc _ Hin) as Hn.
  destruct b; unfold th_of; destruct (assoc_k _ th) as [s|] eqn:E; try congruence; apply (Hs _ _ _ E).
Qed.

(* ------------------------------------------------------------------ *)
(* evaluation of an application spine *)
Lemma eval_spine : forall DC thT thS IC sigV sigS env args ds h r hv,
  List.length args = List.length ds ->
  eval DC thT thS IC sigV sigS env h = (fold_right SF r ds, hv) ->
  eval DC thT thS IC sigV sigS env (fold_left Comb args h) =
  (r, apps DC hv (map (fun a => snd (eval DC thT thS IC sigV sigS env a)) args) ds).
Proof.
  intros DC thT thS IC sigV sigS env. induction args as [|a args IH]; intros ds h r hv Hl Hh; destruct ds as [|d ds]; try discriminate.
  - exact Hh.
  - cbn [fold_left map apps]. apply IH; [cbn in Hl; lia|].
    cbn [Sem.eval]. rewrite Hh. cbn [fold_right]. destruct (eval DC thT thS IC sigV sigS env a) as [sa va]. reflexivity.
Qed.

Lemma tysem_arrows : forall thT thS R Ts,
  tysem thT thS (fold_right TFun R Ts) = fold_right SF (tysem thT thS R) (map (tysem thT thS) Ts).
Proof. intros thT thS R. induction Ts as [|T Ts IH]; [reflexivity|]. cbn [fold_right map]. rewrite <- IH. reflexivity. Qed.

(* ------------------------------------------------------------------ *)
Lemma fvars_vars : forall t n U, In (false, n, U) (tm_fvars t) -> In (Var n U) (vars_of t).
Proof.
  induction t as [m T|m T|m T|f IHf a IHa|x T b IHb|k]; intros n U H; cbn [tm_fvars vars_of] in *.
  - destruct H as [H|[]]. inversion H.
  - destruct H as [H|[]]. inversion H; subst. left. reflexivity.
  - contradiction.
  - apply in_app_or in H. apply in_or_app. destruct H; [left; apply IHf | right; apply IHa]; assumption.
  - apply IHb. exact H.
  - contradiction.
Qed.

Lemma fvars_svars : forall t n U, In (true, n, U) (tm_fvars t) -> In (SVar n U) (svar_terms_of t).
Proof.
  induction t as [m T|m T|m T|f IHf a IHa|x T b IHb|k]; intros n U H; cbn [tm_fvars svar_terms_of] in *.
  - destruct H as [H|[]]. inversion H; subst. left. reflexivity.
  - destruct H as [H|[]]. inversion H.
  - contradiction.
  - apply in_app_or in H. apply in_or_app. destruct H; [left; apply IHf | right; apply IHa]; assumption.
  - apply IHb. exact H.
  - contradiction.
Qed.

Lemma tvars_arrows : forall R Ts Ti, In Ti Ts -> forall k, In k (ty_tvars Ti) -> In k (ty_tvars (fold_right TFun R Ts)).
Proof.
  intros R. induction Ts as [|T Ts IH]; intros Ti Hin k Hk; [destruct Hin|].
  cbn [fold_right]. unfold TFun. cbn [ty_tvars flat_map]. destruct Hin as [<-|Hin].
  - apply in_or_app. left. exact Hk.
  - apply in_or_app. right. rewrite app_nil_r. apply (IH Ti Hin k Hk).
Qed.

Lemma tvars_arrows_res : forall R Ts k, In k (ty_tvars R) -> In k (ty_tvars (fold_right TFun R Ts)).
Proof.
  intros R. induction Ts as [|T Ts IH]; intros k Hk; [exact Hk|].
  cbn [fold_right]. unfold TFun. cbn [ty_tvars flat_map]. apply in_or_app. right. rewrite app_nil_r. apply IH. exact Hk.
Qed.

Lemma Forall2_vals : forall DC thT thS sigV (l : list (string * ty)), val_ok DC thT thS sigV ->
  Forall2 (fun v d => In v (dom DC d)) (map (fun p => sigV (fst p) (snd p)) l) (map (fun p => tysem thT thS (snd p)) l).
Proof. intros DC thT thS sigV l HV. induction l as [|p l IH]; cbn [map]; constructor; [apply HV | exact IH]. Qed.

Section Main.
Variable DC : string -> list sty -> nat.
Variable IC : string -> sty -> V.
Hypothesis Hstd : Standard DC IC.
Variable name : string.
Variable T R : ty.
Variable args : list (string * ty).
Variable rhs : tm.
Hypothesis Hshape : def_shape name T args R rhs = true.
Hypothesis Hwf : fun_arity_ok T = true.
Hypothesis Hrhs : checked_get_type rhs = Some R.

Notation IC' := (IC_ext DC IC name T args rhs).

Lemma shape_facts :
  T = fold_right TFun R (map snd args) /\
  (forall v, In v (vars_of rhs) -> mem_tm v (var_list args) = true) /\
  svar_terms_of rhs = [] /\
  (forall k, In k (tm_tvars rhs) -> In k (ty_tvars T)) /\
  const_types name rhs = [] /\
  prim_name name = false.
Proof.
  pose proof Hshape as H0. unfold def_shape in H0.
  apply andb_true_iff in H0. destruct H0 as [H0 H7]. apply andb_true_iff in H0. destruct H0 as [H0 H6].
  apply andb_true_iff in H0. destruct H0 as [H0 H5]. apply andb_true_iff in H0. destruct H0 as [H0 H4].
  apply andb_true_iff in H0. destruct H0 as [H0 H3]. apply andb_true_iff in H0. destruct H0 as [H1 H2].
  split; [apply ty_eqb_eq; exact H1|]. split.
  - intros v Hv. rewrite forallb_forall in H3. apply H3. exact Hv.
  - split; [destruct (svar_terms_of rhs); [reflexivity | discriminate]|]. split.
    + intros k Hk. rewrite forallb_forall in H5. specialize (H5 k Hk).
      apply existsb_exists in H5. destruct H5 as [k' [Hin Hk']]. apply bs_eqb_eq in Hk'. subst. exact Hin.
    + split; [destruct (const_types name rhs); [reflexivity | discriminate]|].
      apply negb_true_iff in H7. exact H7.
Qed.

Lemma IC_ext_other : forall n s, n <> name -> IC' n s = IC n s.
Proof. intros n s H. unfold IC_ext. apply String.eqb_neq in H. rewrite H. reflexivity. Qed.

Lemma lookup_arg_in : forall thT thS (l : list (string * ty)) vs n U v,
  Forall2 (fun v d => In v (dom DC d)) vs (map (fun p => tysem thT thS (snd p)) l) ->
  lookup_arg l vs n U = Some v -> In v (dom DC (tysem thT thS U)).
Proof.
  intros thT thS. induction l as [|[m W] l IH]; intros vs n U v HF H; [destruct vs; discriminate|].
  destruct vs as [|v0 vs]; [discriminate|]. cbn [map] in HF. inversion HF; subst. cbn [lookup_arg] in H.
  destruct (String.eqb m n && ty_eqb W U) eqn:E.
  - inversion H; subst. apply andb_true_iff in E. destruct E as [_ E]. apply ty_eqb_eq in E. subst. assumption.
  - eapply IH; eauto.
Qed.

Lemma def_value_in_dom : forall th,
  In (def_value DC IC args rhs th) (dom DC (tysem (th_of th false) (th_of th true) T)).
Proof.
  intros th. destruct shape_facts as [HT _]. rewrite HT at 1. rewrite tysem_arrows, map_map. unfold def_value.
  apply tabs_in_dom. intros vs Hvs.
  destruct (eval_typed DC (th_of th false) (th_of th true) IC
              (sig_args DC (th_of th false) (th_of th true) args vs) (sig_dflt DC (th_of th false) (th_of th true))
              (st_ok DC IC Hstd)) with (t := rhs) (bd := @nil ty) (T := R) (env := @nil (sty * V)) as [_ H2].
  - intros n U. unfold sig_args. destruct (lookup_arg args vs n U) as [v|] eqn:E; [eapply lookup_arg_in; eauto | apply some_elem_in].
  - intros n U. apply some_elem_in.
  - exact Hrhs.
  - constructor.
  - exact H2.
Qed.

Lemma IC_ext_ok : ic_ok DC IC'.
Proof.
  intros n s. unfold IC_ext. destruct (String.eqb n name); [|apply (st_ok DC IC Hstd)].
  destruct (sty_match T s []) as [th|]; [|apply (st_ok DC IC Hstd)].
  destruct (sty_eqb (tysem (th_of th false) (th_of th true) T) s) eqn:E; [|apply (st_ok DC IC Hstd)].
  apply sty_eqb_eq in E. rewrite <- E. apply def_value_in_dom.
Qed.

Lemma IC_ext_standard : Standard DC IC'.
Proof.
  destruct shape_facts as [_ [_ [_ [_ [_ Hp]]]]]. unfold prim_name in Hp.
  apply orb_false_iff in Hp. destruct Hp as [Hp H3]. apply orb_false_iff in Hp. destruct Hp as [H1 H2].
  apply String.eqb_neq in H1, H2, H3.
  constructor.
  - apply IC_ext_ok.
  - intros a b. rewrite IC_ext_other by congruence. apply (st_eq DC IC Hstd).
  - rewrite IC_ext_other by congruence. apply (st_imp DC IC Hstd).
  - intros a. rewrite IC_ext_other by congruence. apply (st_all DC IC Hstd).
Qed.

Lemma lookup_arg_self : forall (sig : string -> ty -> V) (l : list (string * ty)) n U,
  mem_tm (Var n U) (var_list l) = true ->
  lookup_arg l (map (fun p => sig (fst p) (snd p)) l) n U = Some (sig n U).
Proof.
  intros sig. induction l as [|[m W] l IH]; intros n U H; [discriminate|].
  cbn [var_list map mem_tm fst snd lookup_arg] in *.
  destruct (String.eqb m n && ty_eqb W U) eqn:E.
  - apply andb_true_iff in E. destruct E as [E1 E2]. apply String.eqb_eq in E1. apply ty_eqb_eq in E2. subst. reflexivity.
  - apply orb_true_iff in H. destruct H as [H|H].
    + cbn [tm_eqb] in H. rewrite String.eqb_sym, (ty_eqb_sym U W) in H. congruence.
    + apply IH. exact H.
Qed.

(* the defining equation holds in the extended model, whatever the type
   assignment and the valuation *)
Theorem def_equation_valid :
  checked_get_type (Comb (Comb (Const "equals" (TFun R (TFun R BoolT))) (def_lhs name T args)) rhs) = Some BoolT ->
  valid DC IC' (mkThm [] (Comb (Comb (Const "equals" (TFun R (TFun R BoolT))) (def_lhs name T args)) rhs)).
Proof.
  intros Hty thT thS sigV sigS HV HS _. cbn [prop].
  rewrite (holds_eq DC IC' IC_ext_standard thT thS sigV sigS HV HS _ _ _ Hty). apply V_eqb_eq.
  destruct shape_facts as [HT [Hvars [Hsv [Htv [Hc _]]]]].
  destruct (sty_match_ok thT thS T [] Hwf) as [th [Em [Sd [Cv _]]]]; [intros b n s H; discriminate|].
  pose proof (th_of_agree th thT thS (ty_tvars T) Sd Cv) as Hag.
  set (tT := th_of th false) in *. set (tS := th_of th true) in *.
  assert (HsemT : tysem tT tS T = tysem thT thS T) by (apply tysem_coincide; exact Hag).
  assert (HIC : IC' name (tysem thT thS T) = def_value DC IC args rhs th).
  { unfold IC_ext. rewrite String.eqb_refl, Em. fold tT tS. rewrite HsemT.
    assert (E : sty_eqb (tysem thT thS T) (tysem thT thS T) = true) by (apply sty_eqb_eq; reflexivity). rewrite E. reflexivity. }
  (* left-hand side *)
  assert (Hds : map (fun p => tysem tT tS (snd p)) args = map (tysem thT thS) (map snd args)).
  { rewrite map_map. apply map_ext_in. intros p Hp. apply tysem_coincide. intros b n Hin. apply Hag.
    rewrite HT. apply (tvars_arrows R (map snd args) (snd p)); [apply in_map; exact Hp | exact Hin]. }
  assert (Hlhs : eval DC thT thS IC' sigV sigS [] (def_lhs name T args) =
                 (tysem thT thS R, snd (eval DC tT tS IC (sig_args DC tT tS args (map (fun p => sigV (fst p) (snd p)) args)) (sig_dflt DC tT tS) [] rhs))).
  { unfold def_lhs.
    rewrite (eval_spine DC thT thS IC' sigV sigS [] (var_list args) (map (tysem thT thS) (map snd args)) (Const name T) (tysem thT thS R)
               (def_value DC IC args rhs th)).
    - f_equal. unfold var_list. rewrite map_map. cbn [Sem.eval snd]. unfold def_value. fold tT tS. rewrite Hds.
      apply apps_tabs. rewrite map_map. apply Forall2_vals. exact HV.
    - unfold var_list. rewrite !map_length. reflexivity.
    - cbn [Sem.eval]. rewrite HIC. rewrite HT at 1. rewrite tysem_arrows. reflexivity. }
  rewrite Hlhs. cbn [snd].
  (* right-hand side *)
  rewrite (eval_IC_coincide DC thT thS IC IC' sigV sigS name rhs [] IC_ext_other Hc).
  rewrite <- (eval_ty_coincide DC tT tS thT thS IC sigV sigS rhs []).
  2: { intros b n Hin. apply Hag. apply Htv. exact Hin. }
  f_equal. apply eval_val_coincide.
  - intros n U Hin. apply fvars_vars in Hin. unfold sig_args. rewrite (lookup_arg_self sigV args n U (Hvars _ Hin)). reflexivity.
  - intros n U Hin. apply fvars_svars in Hin. rewrite Hsv in Hin. destruct Hin.
Qed.

(* nothing else changes: a term that does not mention the new constant has the
   same denotation in the old and in the extended model *)
Theorem def_extension_conservative : forall thT thS sigV sigS t env,
  const_types name t = [] ->
  eval DC thT thS IC' sigV sigS env t = eval DC thT thS IC sigV sigS env t.
Proof. intros. apply (eval_IC_coincide DC thT thS IC IC' sigV sigS name t env IC_ext_other). assumption. Qed.
End Main.

Theorem def_conservative : forall DC IC, Standard DC IC ->
  forall name T R args rhs,
  def_shape name T args R rhs = true -> fun_arity_ok T = true -> checked_get_type rhs = Some R ->
  checked_get_type (Comb (Comb (Const "equals" (TFun R (TFun R BoolT))) (def_lhs name T args)) rhs) = Some BoolT ->
  Standard DC (IC_ext DC IC name T args rhs) /\
  valid DC (IC_ext DC IC name T args rhs)
        (mkThm [] (Comb (Comb (Const "equals" (TFun R (TFun R BoolT))) (def_lhs name T args)) rhs)).
Proof.
  intros DC IC Hstd name T R args rhs Hs Hw Hr Ht. split.
  - eapply IC_ext_standard; eauto.
  - eapply def_equation_valid; eauto.
Qed.

(* ------------------------------------------------------------------ *)
(* what the (repaired) acceptance test of Definition.parse guarantees *)
Lemma strip_comb_acc_spec : forall t acc f al, strip_comb_acc t acc = (f, al) -> fold_left Comb acc t = fold_left Comb al f.
Proof.
  induction t as [n T|n T|n T|g IHg a IHa|x T b IHb|k]; intros acc f al H; cbn [strip_comb_acc] in H;
    try (inversion H; subst; reflexivity).
  apply IHg in H. exact H.
Qed.

Definition arg_of (v : tm) : string * ty := match v with Var n T => (n, T) | _ => (EmptyString, BoolT) end.

Lemma vars_var_list : forall al, forallb is_var al = true -> al = var_list (map arg_of al).
Proof.
  induction al as [|v al IH]; intros H; [reflexivity|]. cbn [forallb] in H. apply andb_true_iff in H. destruct H as [H1 H2].
  destruct v; try discriminate. cbn [map var_list arg_of fst snd]. f_equal. apply IH. exact H2.
Qed.

Lemma names_var_list : forall al names, forallb is_var al = true -> all_some (map name_of al) = Some names ->
  names = map fst (map arg_of al).
Proof.
  induction al as [|v al IH]; intros names H Hn; cbn [map all_some] in *; [inversion Hn; reflexivity|].
  cbn [forallb] in H. apply andb_true_iff in H. destruct H as [H1 H2]. destruct v; try discriminate. cbn [name_of] in Hn.
  destruct (all_some (map name_of al)) as [r|] eqn:E; [|discriminate]. inversion Hn; subst. cbn [arg_of fst]. f_equal. apply IH; auto.
Qed.

Lemma mem_svar_var_list : forall n U l, mem_tm (SVar n U) (var_list l) = false.
Proof. intros n U. induction l as [|p l IH]; [reflexivity|]. cbn [var_list map mem_tm tm_eqb]. exact IH. Qed.

Theorem def_check_shape : forall name T prop,
  def_check true name T prop = (1, []) ->
  exists Te args rhs,
    prop = Comb (Comb (Const "equals" Te) (def_lhs name T args)) rhs /\
    forall R, ty_eqb T (fold_right TFun R (map snd args)) = true -> prim_name name = false ->
              def_shape name T args R rhs = true.
Proof.
  intros name T prop H. unfold def_check in H.
  destruct (dest_binop "equals" prop) as [[lhs rhs]|] eqn:Ed; [|discriminate].
  apply dest_binop_eq in Ed. destruct Ed as [Te ->].
  destruct (strip_comb lhs) as [f al] eqn:Es.
  destruct (tm_eqb f (Const name T)) eqn:Ef; [|discriminate]. cbn [negb] in H.
  destruct (all_some (map name_of al)) as [names|] eqn:En; [|discriminate].
  destruct (forallb is_var al) eqn:Ev; [|discriminate]. cbn [negb] in H.
  destruct (distinct_str names) eqn:Edi; [|discriminate]. cbn [negb] in H.
  destruct (forallb (fun v => mem_tm v al) (vars_of rhs ++ svar_terms_of rhs)) eqn:Em; [|discriminate]. cbn [negb] in H.
  destruct (forallb (fun k => existsb (bs_eqb k) (ty_tvars T)) (tm_tvars rhs)) eqn:Et; [|discriminate]. cbn [negb] in H.
  destruct (const_types name rhs) as [|? ?] eqn:Ec; [|discriminate].
  assert (Hf : f = Const name T).
  { destruct f; cbn [tm_eqb] in Ef; try discriminate. apply andb_true_iff in Ef. destruct Ef as [E1 E2].
    apply String.eqb_eq in E1. apply ty_eqb_eq in E2. subst. reflexivity. }
  subst f. unfold strip_comb in Es. apply strip_comb_acc_spec in Es. cbn [fold_left] in Es.
  exists Te, (map arg_of al), rhs. split.
  - unfold def_lhs. rewrite <- (vars_var_list al Ev). rewrite Es. reflexivity.
  - intros R HT Hp. unfold def_shape. rewrite HT, Hp, Et, Ec. rewrite <- (names_var_list al names Ev En), Edi.
    rewrite <- (vars_var_list al Ev). cbn [is_nil negb andb].
    rewrite forallb_app in Em. apply andb_true_iff in Em. destruct Em as [Em1 Em2]. rewrite Em1. cbn [andb].
    destruct (svar_terms_of rhs) as [|v l] eqn:Esv; [reflexivity|].
    cbn [forallb] in Em2. apply andb_true_iff in Em2. destruct Em2 as [Em2 _].
    assert (Hin : In v (svar_terms_of rhs)) by (rewrite Esv; left; reflexivity).
    assert (Hsv : exists n U, v = SVar n U).
    { clear - Hin. induction rhs; cbn [svar_terms_of] in Hin; try contradiction.
      - destruct Hin as [<-|[]]. eauto.
      - apply in_app_or in Hin. destruct Hin; auto.
      - auto. }
    destruct Hsv as [n [U ->]]. rewrite (vars_var_list al Ev) in Em2. rewrite mem_svar_var_list in Em2. discriminate.
Qed.
