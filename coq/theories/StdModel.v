(* StdModel.v — a standard model exists: the hypotheses [Standard DC IC] of the
   soundness theorems are satisfiable for every choice of carrier sizes. *)
From Coq Require Import List String Bool Arith Lia.
Import ListNotations.
From HolpyV Require Import Kernel KernelLemmas Sem SemLemmas Sound.
Open Scope string_scope.
Open Scope list_scope.

Section Std.
Variable DC : string -> list sty -> nat.

Definition other0 (n : string) (s : sty) : V := hd (VB false) (dom DC s).

Lemma other0_ok : ic_ok DC other0.
Proof.
  intros n s. unfold other0. destruct (dom DC s) as [|v l] eqn:E; [exfalso; eapply dom_nonempty; eauto|]. left. reflexivity.
Qed.

(* IC_std, kept only where its value lies in the domain of the semantic type
   (IC_std answers "Some"/"The" at result types other than the element type
   with a value of the element type) *)
Definition IC_fix (n : string) (s : sty) : V :=
  let v := IC_std DC other0 n s in
  if existsb (V_eqb v) (dom DC s) then v else other0 n s.

Lemma IC_fix_ok : ic_ok DC IC_fix.
Proof.
  intros n s. unfold IC_fix. destruct (existsb (V_eqb (IC_std DC other0 n s)) (dom DC s)) eqn:E; [|apply other0_ok].
  apply existsb_exists in E. destruct E as [x [Hx Hv]]. apply V_eqb_eq in Hv. rewrite Hv. exact Hx.
Qed.

Lemma IC_fix_in : forall n s, In (IC_std DC other0 n s) (dom DC s) -> IC_fix n s = IC_std DC other0 n s.
Proof.
  intros n s H. unfold IC_fix.
  assert (E : existsb (V_eqb (IC_std DC other0 n s)) (dom DC s) = true).
  { apply existsb_exists. exists (IC_std DC other0 n s). split; [exact H | apply V_eqb_refl]. }
  rewrite E. reflexivity.
Qed.

Lemma vb_in : forall b, In (VB b) (dom DC SB).
Proof. intros [|]; cbn; auto. Qed.

Lemma tab2_in_dom : forall a b c f, (forall x y, In x (dom DC a) -> In y (dom DC b) -> In (f x y) (dom DC c)) ->
  In (tab2 DC a b f) (dom DC (SF a (SF b c))).
Proof.
  intros a b c f H. unfold tab2. apply tab1_in_dom. intros x Hx. apply tab1_in_dom. intros y Hy. apply H; assumption.
Qed.

Theorem IC_fix_standard : Standard DC IC_fix.
Proof.
  constructor.
  - apply IC_fix_ok.
  - intros a b. rewrite IC_fix_in; unfold IC_std; rewrite String.eqb_refl; [reflexivity|].
    apply tab2_in_dom. intros x y _ _. apply vb_in.
  - assert (E : String.eqb "implies" "equals" = false) by reflexivity.
    rewrite IC_fix_in; unfold IC_std; rewrite E, String.eqb_refl; [reflexivity|].
    apply (tab2_in_dom SB SB SB). intros x y _ _. apply vb_in.
  - intros a.
    assert (E1 : String.eqb "all" "equals" = false) by reflexivity.
    assert (E2 : String.eqb "all" "implies" = false) by reflexivity.
    rewrite IC_fix_in; unfold IC_std; rewrite E1, E2, String.eqb_refl; [reflexivity|].
    apply (tab1_in_dom DC (SF a SB) SB). intros f _. apply vb_in.
Qed.

End Std.
