(* FOMatchSound.v — a successful first-order match instantiates the pattern to
   the target and only extends the given instantiation. *)
From Coq Require Import List String Bool Arith Lia.
Import ListNotations.
From HolpyV Require Import Kernel KernelLemmas TyMatch FOMatch.
Open Scope string_scope.
Open Scope list_scope.
Open Scope nat_scope.

Definition sv_extends (a b : list (string * tm)) : Prop := forall n u, lookup n a = Some u -> lookup n b = Some u.
Definition m_extends (I J : minst) : Prop := extends (m_ty I) (m_ty J) /\ sv_extends (m_sv I) (m_sv J).

(* schematic type variables in the annotations that survive instantiation, and
   names of schematic variables *)
Fixpoint tm_stvars (t : tm) : list string :=
  match t with
  | SVar _ _ => []
  | Var _ T | Const _ T => stvars T
  | Comb f a => tm_stvars f ++ tm_stvars a
  | Abs _ T b => stvars T ++ tm_stvars b
  | Bound _ => []
  end.
Fixpoint tm_svnames (t : tm) : list string :=
  match t with
  | SVar n _ => [n]
  | Comb f a => tm_svnames f ++ tm_svnames a
  | Abs _ _ b => tm_svnames b
  | _ => []
  end.

Definition covered (I : minst) (p : tm) : Prop :=
  binds (m_ty I) (tm_stvars p) /\ (forall n, In n (tm_svnames p) -> lookup n (m_sv I) <> None).

Lemma m_extends_refl : forall I, m_extends I I.
Proof. intros I. split; [apply extends_refl | intros n u H; exact H]. Qed.

Lemma m_extends_trans : forall A B C, m_extends A B -> m_extends B C -> m_extends A C.
Proof. intros A B C [H1 H2] [H3 H4]. split; [eapply extends_trans; eauto | intros n u H; apply H4, H2, H]. Qed.

Lemma covered_extends : forall I J p, covered I p -> m_extends I J -> covered J p.
Proof.
  intros I J p [H1 H2] [E1 E2]. split; [eapply binds_extends; eauto|].
  intros n Hin. specialize (H2 n Hin). destruct (lookup n (m_sv I)) as [u|] eqn:E; [|congruence]. rewrite (E2 n u E). discriminate.
Qed.

(* the instance of a covered pattern does not change when the instantiation grows *)
Lemma apply_stable : forall I J p, m_extends I J -> covered I p -> apply_inst J p = apply_inst I p.
Proof.
  intros I J p [E1 E2]. unfold apply_inst, covered. induction p as [n T|n T|n T|f IHf a IHa|x T b IHb|k]; intros [H1 H2];
    cbn [tm_subst_type subst_sv tm_stvars tm_svnames] in *.
  - specialize (H2 n (or_introl eq_refl)). destruct (lookup n (m_sv I)) as [u|] eqn:E; [|congruence]. rewrite (E2 n u E). reflexivity.
  - rewrite (ty_subst_stable _ _ T E1 H1). reflexivity.
  - rewrite (ty_subst_stable _ _ T E1 H1). reflexivity.
  - rewrite IHf, IHa; [reflexivity | |]; (split; [intros m Hm; apply H1; apply in_or_app; auto | intros m Hm; apply H2; apply in_or_app; auto]).
  - rewrite (ty_subst_stable _ _ T E1); [|intros m Hm; apply H1; apply in_or_app; auto].
    rewrite IHb; [reflexivity|]. split; [intros m Hm; apply H1; apply in_or_app; auto | exact H2].
  - reflexivity.
Qed.

Section Sound.
Variable ar : string -> nat.

Fixpoint tm_wf (t : tm) : bool :=
  match t with
  | SVar _ T | Var _ T | Const _ T => ty_wf ar T
  | Comb f a => tm_wf f && tm_wf a
  | Abs _ T b => ty_wf ar T && tm_wf b
  | Bound _ => true
  end.

Theorem fo_match_sound : forall pat t depth I I',
  tm_wf pat = true -> tm_wf t = true ->
  fo_match pat t depth I = Some I' ->
  m_extends I I' /\ covered I' pat /\ tm_eqb (apply_inst I' pat) t = true.
Proof.
  induction pat as [n T|n T|n T|f IHf a IHa|x T b IHb|k]; intros t depth I I' Hwp Hwt H; cbn [fo_match] in H.
  - (* schematic variable *)
    destruct (lookup n (m_sv I)) as [u|] eqn:E.
    + destruct (tm_eqb u t) eqn:Eu; [|discriminate]. inversion H; subst I'.
      split; [apply m_extends_refl|]. split.
      * split; [intros m []|]. intros m [<-|[]]. rewrite E. discriminate.
      * unfold apply_inst. cbn [tm_subst_type subst_sv]. rewrite E. exact Eu.
    + destruct (is_open t); [discriminate|]. destruct (get_type t) as [U|]; [|discriminate].
      destruct (ty_match_incr T U (m_ty I)) as [s'|] eqn:Em; [|discriminate]. inversion H; subst I'. cbn [m_sv m_ty].
      split; [split; cbn [m_sv m_ty]; [apply (ty_match_extends _ _ _ _ Em) | intros m v Hm; apply lookup_app_some; exact Hm]|].
      split.
      * split; [intros m []|]. intros m [<-|[]]. cbn [m_sv]. rewrite (lookup_app_none _ n _ _ E). cbn [lookup]. rewrite String.eqb_refl. discriminate.
      * unfold apply_inst. cbn [tm_subst_type subst_sv m_sv m_ty]. rewrite (lookup_app_none _ n _ _ E). cbn [lookup]. rewrite String.eqb_refl.
        apply tm_eqb_refl.
  - (* variable *)
    destruct t as [|m U| | | |]; try discriminate. destruct (String.eqb n m) eqn:En; [|discriminate].
    destruct (ty_match_incr T U (m_ty I)) as [s'|] eqn:Em; [|discriminate]. inversion H; subst I'.
    cbn [tm_wf] in Hwp, Hwt. destruct (ty_match_ok ar T U _ _ Hwp Hwt Em) as [He [Hb Hs]].
    split; [split; cbn [m_sv m_ty]; [exact He | intros k v Hk; exact Hk]|]. split.
    + split; [exact Hb | intros k []].
    + unfold apply_inst. cbn [tm_subst_type subst_sv m_sv m_ty tm_eqb]. rewrite Hs, En, ty_eqb_refl. reflexivity.
  - (* constant *)
    destruct t as [| |m U| | |]; try discriminate. destruct (String.eqb n m) eqn:En; [|discriminate].
    destruct (ty_match_incr T U (m_ty I)) as [s'|] eqn:Em; [|discriminate]. inversion H; subst I'.
    cbn [tm_wf] in Hwp, Hwt. destruct (ty_match_ok ar T U _ _ Hwp Hwt Em) as [He [Hb Hs]].
    split; [split; cbn [m_sv m_ty]; [exact He | intros k v Hk; exact Hk]|]. split.
    + split; [exact Hb | intros k []].
    + unfold apply_inst. cbn [tm_subst_type subst_sv m_sv m_ty tm_eqb]. rewrite Hs, En, ty_eqb_refl. reflexivity.
  - (* application *)
    destruct t as [| | |g c| |]; try discriminate.
    destruct (fo_match f g depth I) as [I1|] eqn:E1; [|discriminate].
    cbn [tm_wf] in Hwp, Hwt. apply andb_true_iff in Hwp. destruct Hwp as [Hwf Hwa]. apply andb_true_iff in Hwt. destruct Hwt as [Hwg Hwc].
    destruct (IHf _ _ _ _ Hwf Hwg E1) as [X1 [C1 Q1]]. destruct (IHa _ _ _ _ Hwa Hwc H) as [X2 [C2 Q2]].
    split; [eapply m_extends_trans; eauto|]. split.
    + pose proof (covered_extends _ _ _ C1 X2) as C1'. destruct C1' as [B1 S1]. destruct C2 as [B2 S2].
      split; cbn [tm_stvars tm_svnames]; intros m Hm; apply in_app_or in Hm; destruct Hm; auto.
    + unfold apply_inst in *. cbn [tm_subst_type subst_sv tm_eqb].
      pose proof (apply_stable I1 I' f X2 C1) as St. unfold apply_inst in St. rewrite St, Q1, Q2. reflexivity.
  - (* abstraction *)
    destruct t as [| | | |y U c|]; try discriminate.
    destruct (ty_match_incr T U (m_ty I)) as [s1|] eqn:Em; [|discriminate].
    cbn [tm_wf] in Hwp, Hwt. apply andb_true_iff in Hwp. destruct Hwp as [HwT Hwb]. apply andb_true_iff in Hwt. destruct Hwt as [HwU Hwc].
    destruct (ty_match_ok ar T U _ _ HwT HwU Em) as [He [Hb Hs]].
    destruct (IHb _ _ _ _ Hwb Hwc H) as [[X1 X2] [[C1 C2] Q]]. cbn [m_sv m_ty] in X1, X2.
    split; [split; [eapply extends_trans; eauto | exact X2]|]. split.
    + split; cbn [tm_stvars tm_svnames]; [|exact C2]. intros m Hm. apply in_app_or in Hm. destruct Hm as [Hm|Hm]; [|apply C1; exact Hm].
      apply (binds_extends s1 (m_ty I') _ Hb X1 m Hm).
    + unfold apply_inst in *. cbn [tm_subst_type subst_sv tm_eqb].
      rewrite (ty_subst_stable s1 (m_ty I') T X1 Hb), Hs, ty_eqb_refl, Q. reflexivity.
  - (* bound variable *)
    destruct t as [| | | | |j]; try discriminate. destruct (Nat.eqb k j && Nat.ltb k depth) eqn:E; [|discriminate]. inversion H; subst I'.
    apply andb_true_iff in E. destruct E as [E _].
    split; [apply m_extends_refl|]. split; [split; intros m []|]. unfold apply_inst. cbn [tm_subst_type subst_sv tm_eqb]. exact E.
Qed.
End Sound.
