(* C11Lib.v — harness glue for C11: the complete acceptance verdict of the model
   (shape test + overlap test for self-occurrences of an overloaded constant). *)
From Coq Require Import List String Bool Arith.
Import ListNotations.
From HolpyV Require Import Kernel DefCheck Unify.

(* 1 = accepted, 0 = rejected, 3 = fuel of the overlap test exhausted *)
Definition def_verdict (fx : bool) (name : string) (T : ty) (prop : tm) : nat :=
  let '(c, l) := def_check fx name T prop in
  match c with
  | 0 => 0
  | 1 => 1
  | _ =>
      if existsb (fun U => match overlap 400 U T with None => true | _ => false end) l then 3
      else if forallb (fun U => match overlap 400 U T with Some false => true | _ => false end) l then 1 else 0
  end.
