(* Alethe2Sound.v — every clause accepted by one of the 24 rules of Alethe2.v is a
   propositional consequence of the premises; the code of equiv_pos1 before its
   repair is refuted. *)
From Coq Require Import List String Bool Arith Lia.
Import ListNotations.
From HolpyV Require Import TruthTable Alethe AletheSound Alethe2.
Open Scope string_scope.
Open Scope list_scope.

Ltac bm E :=
  repeat match type of E with
         | match ?x with _ => _ end = Some _ => destruct x eqn:?; try discriminate
         | (if ?b then _ else _) = Some _ => destruct b eqn:?; try discriminate
         end.
Ltac eqs :=
  repeat match goal with
         | Hb : (_ && _) = true |- _ => apply andb_true_iff in Hb; destruct Hb
         | Hb : pf_eqb _ _ = true |- _ => apply pf_eqb_eq in Hb
         | Hb : pf_list_eqb _ _ = true |- _ => apply pf_list_eqb_eq in Hb
         end;
  repeat match goal with
         | Hb : PNot _ = PNot _ |- _ => injection Hb as Hb
         end.

Section S.
Variable v : nat -> bool.
Notation H := (pholds v).
Notation prems_hold := (prems_hold v).

(* the remaining goal of a rule of fixed shape: a boolean tautology in the values of the subformulas *)
Ltac taut :=
  cbn [mk_or pholds];
  repeat match goal with
         | |- context [H ?q] => is_var q; destruct (H q)
         end; cbn; congruence.

Ltac fixed_shape f :=
  let E := fresh "E" in
  intros args prems c E; unfold f in E; bm E; eqs; subst; inversion E; subst; taut.

Ltac fixed_shape_prem f :=
  let E := fresh "E" in let Hp := fresh "Hp" in
  intros args prems c E Hp; unfold f in E; bm E; eqs; subst; inversion E; subst;
  pose proof (Hp _ (or_introl eq_refl)) as Hprem; revert Hprem; clear; taut.

Lemma or_search_sound : forall x d, or_search x d = true -> H x = true -> H d = true.
Proof.
  intros x. induction d; cbn [or_search]; try discriminate. intros E Hx. cbn [pholds].
  apply orb_true_iff in E. destruct E as [E|E].
  - apply orb_true_iff in E. destruct E as [E|E]; apply pf_eqb_eq in E; subst; rewrite Hx; auto using orb_true_r.
  - rewrite (IHd2 E Hx). apply orb_true_r.
Qed.

Lemma sound_or_neg : forall args prems c, acc_or_neg args prems = Some c -> H c = true.
Proof.
  intros args prems c E. unfold acc_or_neg in E. bm E. inversion E; subst.
  match goal with Hs : or_search ?x ?d = true |- _ =>
    change (H d || negb (H x) = true); destruct (H x) eqn:Ex; [rewrite (or_search_sound _ _ Hs Ex); reflexivity | apply orb_true_r] end.
Qed.

Lemma sound_equiv_pos1 : forall args prems c, acc_equiv_pos1 args prems = Some c -> H c = true.
Proof. fixed_shape acc_equiv_pos1. Qed.
Lemma sound_equiv_pos2 : forall args prems c, acc_equiv_pos2 args prems = Some c -> H c = true.
Proof. fixed_shape acc_equiv_pos2. Qed.
Lemma sound_equiv_neg1 : forall args prems c, acc_equiv_neg1 args prems = Some c -> H c = true.
Proof. fixed_shape acc_equiv_neg1. Qed.
Lemma sound_equiv_neg2 : forall args prems c, acc_equiv_neg2 args prems = Some c -> H c = true.
Proof. fixed_shape acc_equiv_neg2. Qed.
Lemma sound_implies_pos : forall args prems c, acc_implies_pos args prems = Some c -> H c = true.
Proof. fixed_shape acc_implies_pos. Qed.
Lemma sound_implies_neg1 : forall args prems c, acc_implies_neg1 args prems = Some c -> H c = true.
Proof. fixed_shape acc_implies_neg1. Qed.
Lemma sound_implies_neg2 : forall args prems c, acc_implies_neg2 args prems = Some c -> H c = true.
Proof. fixed_shape acc_implies_neg2. Qed.
Lemma sound_ite_pos1 : forall args prems c, acc_ite_pos1 args prems = Some c -> H c = true.
Proof. fixed_shape acc_ite_pos1. Qed.
Lemma sound_ite_pos2 : forall args prems c, acc_ite_pos2 args prems = Some c -> H c = true.
Proof. fixed_shape acc_ite_pos2. Qed.
Lemma sound_ite_neg1 : forall args prems c, acc_ite_neg1 args prems = Some c -> H c = true.
Proof. fixed_shape acc_ite_neg1. Qed.
Lemma sound_ite_neg2 : forall args prems c, acc_ite_neg2 args prems = Some c -> H c = true.
Proof. fixed_shape acc_ite_neg2. Qed.
Lemma sound_xor_pos1 : forall args prems c, acc_xor_pos1 args prems = Some c -> H c = true.
Proof. fixed_shape acc_xor_pos1. Qed.
Lemma sound_xor_pos2 : forall args prems c, acc_xor_pos2 args prems = Some c -> H c = true.
Proof. fixed_shape acc_xor_pos2. Qed.
Lemma sound_xor_neg1 : forall args prems c, acc_xor_neg1 args prems = Some c -> H c = true.
Proof. fixed_shape acc_xor_neg1. Qed.
Lemma sound_xor_neg2 : forall args prems c, acc_xor_neg2 args prems = Some c -> H c = true.
Proof. fixed_shape acc_xor_neg2. Qed.

Lemma sound_ite1 : forall args prems c, acc_ite1 args prems = Some c -> prems_hold prems -> H c = true.
Proof. fixed_shape_prem acc_ite1. Qed.
Lemma sound_ite2 : forall args prems c, acc_ite2 args prems = Some c -> prems_hold prems -> H c = true.
Proof. fixed_shape_prem acc_ite2. Qed.
Lemma sound_not_implies1 : forall args prems c, acc_not_implies1 args prems = Some c -> prems_hold prems -> H c = true.
Proof. fixed_shape_prem acc_not_implies1. Qed.
Lemma sound_not_implies2 : forall args prems c, acc_not_implies2 args prems = Some c -> prems_hold prems -> H c = true.
Proof. fixed_shape_prem acc_not_implies2. Qed.
Lemma sound_not_ite1 : forall args prems c, acc_not_ite1 args prems = Some c -> prems_hold prems -> H c = true.
Proof. fixed_shape_prem acc_not_ite1. Qed.
Lemma sound_not_ite2 : forall args prems c, acc_not_ite2 args prems = Some c -> prems_hold prems -> H c = true.
Proof. fixed_shape_prem acc_not_ite2. Qed.

(* and_neg: the expected literals are the negations of a decomposition of the conjunction *)
Lemma and_neg_expected_holds : forall last cj, existsb H (and_neg_expected last cj) = negb (H cj).
Proof.
  intros last. induction cj; cbn [and_neg_expected existsb pholds]; try (rewrite orb_false_r; reflexivity).
  destruct (pf_eqb (PNot cj2) last).
  - cbn [existsb pholds]. rewrite orb_false_r, negb_andb. reflexivity.
  - rewrite IHcj2, negb_andb. reflexivity.
Qed.

Lemma and_neg_expected_nonempty : forall last cj, and_neg_expected last cj <> [].
Proof. intros last cj. destruct cj; cbn; discriminate. Qed.

Lemma sound_and_neg : forall args prems c, acc_and_neg args prems = Some c -> H c = true.
Proof.
  intros args prems c E. unfold acc_and_neg in E. destruct args as [|cj rest]; [discriminate|].
  destruct (pf_list_eqb rest _) eqn:El; [|discriminate]. apply pf_list_eqb_eq in El. assert (Ec : mk_or (cj :: rest) = c) by congruence. rewrite <- Ec.
  rewrite holds_mk_or. cbn [existsb]. rewrite El, and_neg_expected_holds. destruct (H cj); reflexivity.
Qed.

(* contraction *)
Lemma dedup_acc_in : forall l seen x, In x (dedup_acc seen l) -> In x l.
Proof.
  induction l as [|y l IH]; intros seen x Hx; cbn [dedup_acc] in Hx; [exact Hx|].
  destruct (mem_pf y seen); [right; eauto|]. destruct Hx as [->|Hx]; [left; reflexivity | right; eauto].
Qed.

Lemma in_dedup_acc : forall l seen x, In x l -> In x (dedup_acc seen l) \/ In x seen.
Proof.
  induction l as [|y l IH]; intros seen x Hx; [destruct Hx|]. cbn [dedup_acc].
  destruct (mem_pf y seen) eqn:Em.
  - destruct Hx as [->|Hx]; [right; apply mem_pf_in; exact Em | apply IH; exact Hx].
  - destruct Hx as [->|Hx]; [left; left; reflexivity|].
    destruct (IH (y :: seen) x Hx) as [Hd|[->|Hs]]; [left; right; exact Hd | left; left; reflexivity | right; exact Hs].
Qed.

Lemma existsb_dedup : forall l, existsb H (dedup_acc [] l) = existsb H l.
Proof.
  intros l. apply eq_true_iff_eq. rewrite !existsb_exists. split; intros [x [Hx Hh]]; exists x; split; auto.
  - eapply dedup_acc_in; eauto.
  - destruct (in_dedup_acc l [] x Hx) as [Hd|[]]; exact Hd.
Qed.

Lemma sound_contraction : forall args prems c, acc_contraction args prems = Some c -> prems_hold prems -> H c = true.
Proof.
  intros args prems c E Hp. unfold acc_contraction in E. destruct prems as [|prev [|]]; try discriminate.
  destruct (pf_list_eqb _ args) eqn:El; [|discriminate]. apply pf_list_eqb_eq in El. assert (Ec : mk_or args = c) by congruence. rewrite <- Ec.
  rewrite holds_mk_or, <- El, existsb_dedup, <- holds_strip_disj. apply Hp. left. reflexivity.
Qed.

End S.

Theorem accept2_sound : forall rule args prems c,
  accept2 rule args prems = Some c ->
  forall v, (forall p, In p prems -> pholds v p = true) -> pholds v c = true.
Proof.
  intros rule args prems c E v Hp. unfold accept2, rules2 in E. cbn [lookup_rule] in E.
  repeat match type of E with
         | match (if ?b then _ else _) with _ => _ end = _ => destruct b
         end;
  eauto using sound_or_neg, sound_equiv_pos1, sound_equiv_pos2, sound_equiv_neg1, sound_equiv_neg2, sound_ite1, sound_ite2,
    sound_and_neg, sound_contraction, sound_implies_pos, sound_implies_neg1, sound_implies_neg2, sound_not_implies1,
    sound_not_implies2, sound_ite_pos1, sound_ite_pos2, sound_ite_neg1, sound_ite_neg2, sound_not_ite1, sound_not_ite2,
    sound_xor_pos1, sound_xor_pos2, sound_xor_neg1, sound_xor_neg2.
  discriminate.
Qed.

Theorem accept_all_sound : forall rule args prems c,
  accept_all rule args prems = Some c ->
  forall v, (forall p, In p prems -> pholds v p = true) -> pholds v c = true.
Proof.
  intros rule args prems c E v Hp. unfold accept_all in E.
  destruct (existsb (String.eqb rule) modelled_rules); [eapply accept_sound | eapply accept2_sound]; eauto.
Qed.

(* the 37 rule names are pairwise distinct, so no rule of the second table is shadowed *)
Lemma rule_names_distinct : NoDup (modelled_rules ++ modelled_rules2).
Proof.
  assert (Hd : forall l : list string, (fix nodupb (l : list string) : bool :=
             match l with [] => true | x :: l' => negb (existsb (String.eqb x) l') && nodupb l' end) l = true -> NoDup l).
  { induction l as [|x l IH]; intros E; [constructor|]. apply andb_true_iff in E. destruct E as [E1 E2].
    constructor; [|auto]. intros Hin. apply negb_true_iff in E1.
    assert (existsb (String.eqb x) l = true) by (apply existsb_exists; exists x; split; [exact Hin | apply String.eqb_refl]).
    congruence. }
  apply Hd. vm_compute. reflexivity.
Qed.

(* history: before the repair equiv_pos1 read the operands of whatever was under the
   negation of its first literal; it accepted ~(a | b) | a | ~b, false for a = F, b = T *)
Theorem equiv_pos1_historical_refuted :
  exists args c v, acc_equiv_pos1_historical args [] = Some c /\ pholds v c = false /\ acc_equiv_pos1 args [] = None.
Proof.
  exists [PNot (POr (PAtom 0) (PAtom 1)); PAtom 0; PNot (PAtom 1)].
  exists (POr (PNot (POr (PAtom 0) (PAtom 1))) (POr (PAtom 0) (PNot (PAtom 1)))).
  exists (fun n => Nat.eqb n 1). split; [|split]; vm_compute; reflexivity.
Qed.
