(* Props_C10.v — property theorems for C10 (only statements closed by [exact]). *)
From Coq Require Import List String Bool Arith.
Import ListNotations.
From HolpyV Require Import Kernel TermOrd ConvModel ConvSound Nnf NnfSound.

(* ConvOK H c: whenever the conversion c returns a sequent for a term t, it is an
   equation whose left side is t (up to bound names) and whose hypotheses come
   from H.  Every combinator maps conversions with this property to a conversion
   with this property; the base cases are all_conv / no_conv.
   PARTIAL with respect to C10: abstraction-descending combinators (abs_conv,
   top_conv), rewr_conv and the arithmetic normalisers are explored by the
   harness, not modelled. *)
Theorem C10_all_conv : forall H, ConvOK H all_conv.
Proof. exact all_conv_ok. Qed.
Print Assumptions C10_all_conv.
Theorem C10_then_conv : forall H c1 c2, ConvOK H c1 -> ConvOK H c2 -> ConvOK H (then_conv c1 c2).
Proof. exact then_conv_ok. Qed.
Print Assumptions C10_then_conv.
Theorem C10_else_conv : forall H c1 c2, ConvOK H c1 -> ConvOK H c2 -> ConvOK H (else_conv c1 c2).
Proof. exact else_conv_ok. Qed.
Print Assumptions C10_else_conv.
Theorem C10_combination_conv : forall H c1 c2, ConvOK H c1 -> ConvOK H c2 -> ConvOK H (combination_conv c1 c2).
Proof. exact combination_conv_ok. Qed.
Print Assumptions C10_combination_conv.
Theorem C10_try_conv : forall H c, ConvOK H c -> ConvOK H (try_conv c).
Proof. exact try_conv_ok. Qed.
Print Assumptions C10_try_conv.
Theorem C10_binop_conv : forall H c, ConvOK H c -> ConvOK H (binop_conv c).
Proof. exact binop_conv_ok. Qed.
Print Assumptions C10_binop_conv.
Theorem C10_arg1_conv : forall H c, ConvOK H c -> ConvOK H (arg1_conv c).
Proof. exact arg1_conv_ok. Qed.
Print Assumptions C10_arg1_conv.
Theorem C10_every_conv : forall H cs, Forall (ConvOK H) cs -> ConvOK H (every_conv cs).
Proof. exact every_conv_ok. Qed.
Print Assumptions C10_every_conv.
Theorem C10_bottom_conv : forall H c, ConvOK H c -> ConvOK H (bottom_conv c).
Proof. exact bottom_conv_ok. Qed.
Print Assumptions C10_bottom_conv.
Theorem C10_top_sweep_conv : forall H c, ConvOK H c -> ConvOK H (top_sweep_conv c).
Proof. exact top_sweep_conv_ok. Qed.
Print Assumptions C10_top_sweep_conv.

(* conj_norm / disj_norm (flatten, drop duplicates, sort by fast_compare) are
   canonical and idempotent *)
Theorem C10_norm_canonical : forall name unit s t,
  (forall z, mem_tm z (strip_op name s) = mem_tm z (strip_op name t)) ->
  tm_eqb (norm_op name unit s) (norm_op name unit t) = true.
Proof. exact norm_canonical. Qed.
Print Assumptions C10_norm_canonical.

Theorem C10_norm_idempotent : forall name unit t,
  tm_eqb (norm_op name unit (norm_op name unit t)) (norm_op name unit t) = true.
Proof. exact norm_idempotent. Qed.
Print Assumptions C10_norm_idempotent.

Example C10_example :
  let A := Var "A" BoolT in let B := Var "B" BoolT in
  let conj x y := Comb (Comb (Const "conj" bool2) x) y in
  norm_op "conj" (Const "true" BoolT) (conj (conj B A) (conj A B)) = conj A B.
Proof. vm_compute. reflexivity. Qed.

(* nnf_conv (data/proplogic.py) on the propositional skeleton of a term (atoms: whatever the
   conversion leaves alone): the result has the same truth value under every valuation of the
   atoms, is in negation normal form (a negation stands in front of an atom only), and a normal
   form is left unchanged -- so normalising twice gives what normalising once gives.  The model
   is compared with nnf_conv on generated formulas by the harness (case_nnf). *)
Theorem C10_nnf_meaning : forall v f, feval v (nnf f) = feval v f.
Proof. exact nnf_sem. Qed.
Print Assumptions C10_nnf_meaning.

Theorem C10_nnf_normal : forall f, is_nnf (nnf f) = true.
Proof. exact nnf_normal. Qed.
Print Assumptions C10_nnf_normal.

Theorem C10_nnf_fixed : forall f, is_nnf f = true -> nnf f = f.
Proof. exact nnf_fixed. Qed.
Print Assumptions C10_nnf_fixed.

Theorem C10_nnf_idempotent : forall f, nnf (nnf f) = nnf f.
Proof. exact nnf_idempotent. Qed.
Print Assumptions C10_nnf_idempotent.

Example C10_nnf_example :
  let A := FAtom (Var "A" BoolT) in let B := FAtom (Var "B" BoolT) in
  nnf (FNot (FIff A (FNot (FNot B)))) = FIff (FNot A) B /\ is_nnf (FNot (FNot A)) = false.
Proof. vm_compute. split; reflexivity. Qed.
