(* Imp.v — model of imperative/expr.py and imperative/com.py (definitions only):
   expressions with dynamically-typed evaluation, substitution, commands,
   compute_wp with its pre/post lists, get_vcs, a big-step semantics and a
   fuelled reference interpreter. *)
From Coq Require Import List String Bool ZArith.
Import ListNotations.
Open Scope string_scope.
Open Scope list_scope.

Inductive expr :=
| EVar (x : string)
| ENum (n : Z)
| EBool (b : bool)
| EUn (op : string) (a : expr)            (* "-"  "~" *)
| EBin (op : string) (a b : expr)         (* + - * == != <= < >= > & | --> <--> *)
| EIte (c a b : expr).

Inductive val := VZ (z : Z) | VBo (b : bool).

Definition state := string -> Z.
Definition upd (s : state) (x : string) (z : Z) : state :=
  fun y => if String.eqb y x then z else s y.

Definition un_sem (op : string) (v : val) : option val :=
  match v with
  | VZ z => if String.eqb op "-" then Some (VZ (- z)) else None
  | VBo b => if String.eqb op "~" then Some (VBo (negb b)) else None
  end.

Definition bin_sem (op : string) (v w : val) : option val :=
  match v, w with
  | VZ a, VZ b =>
      if String.eqb op "+" then Some (VZ (a + b))
      else if String.eqb op "-" then Some (VZ (a - b))
      else if String.eqb op "*" then Some (VZ (a * b))
      else if String.eqb op "==" then Some (VBo (Z.eqb a b))
      else if String.eqb op "!=" then Some (VBo (negb (Z.eqb a b)))
      else if String.eqb op "<=" then Some (VBo (Z.leb a b))
      else if String.eqb op "<" then Some (VBo (Z.ltb a b))
      else if String.eqb op ">=" then Some (VBo (Z.leb b a))
      else if String.eqb op ">" then Some (VBo (Z.ltb b a))
      else None
  | VBo a, VBo b =>
      if String.eqb op "&" then Some (VBo (a && b))
      else if String.eqb op "|" then Some (VBo (a || b))
      else if String.eqb op "-->" then Some (VBo (implb a b))
      else if String.eqb op "<-->" then Some (VBo (Bool.eqb a b))
      else None
  | _, _ => None
  end.

Fixpoint eval (s : state) (e : expr) : option val :=
  match e with
  | EVar x => Some (VZ (s x))
  | ENum n => Some (VZ n)
  | EBool b => Some (VBo b)
  | EUn op a => match eval s a with Some v => un_sem op v | None => None end
  | EBin op a b =>
      match eval s a, eval s b with
      | Some v, Some w => bin_sem op v w
      | _, _ => None
      end
  | EIte c a b =>
      match eval s c with
      | Some (VBo true) => eval s a
      | Some (VBo false) => eval s b
      | _ => None
      end
  end.

(* concrete states: association lists, latest binding first *)
Definition astate := list (string * Z).
Fixpoint alook (s : astate) (x : string) : Z :=
  match s with
  | [] => 0%Z
  | (y, z) :: s' => if String.eqb x y then z else alook s' x
  end.
Definition aupd (s : astate) (x : string) (z : Z) : astate := (x, z) :: s.


Definition holds (s : astate) (e : expr) : Prop := eval (alook s) e = Some (VBo true).

(* Expr.subst with a one-variable instantiation {x: e} *)
Fixpoint subst (x : string) (e : expr) (q : expr) : expr :=
  match q with
  | EVar y => if String.eqb y x then e else q
  | ENum _ | EBool _ => q
  | EUn op a => EUn op (subst x e a)
  | EBin op a b => EBin op (subst x e a) (subst x e b)
  | EIte c a b => EIte (subst x e c) (subst x e a) (subst x e b)
  end.

Fixpoint expr_eqb (a b : expr) : bool :=
  match a, b with
  | EVar x, EVar y => String.eqb x y
  | ENum n, ENum m => Z.eqb n m
  | EBool x, EBool y => Bool.eqb x y
  | EUn o a1, EUn p b1 => String.eqb o p && expr_eqb a1 b1
  | EBin o a1 a2, EBin p b1 b2 => String.eqb o p && expr_eqb a1 b1 && expr_eqb a2 b2
  | EIte c1 a1 a2, EIte c2 b1 b2 => expr_eqb c1 c2 && expr_eqb a1 b1 && expr_eqb a2 b2
  | _, _ => false
  end.

Definition e_conj (a b : expr) := EBin "&" a b.
Definition e_neg (a : expr) := EUn "~" a.
Definition e_imp (a b : expr) := EBin "-->" a b.

Inductive com :=
| CSkip
| CAssign (x : string) (e : expr)
| CSeq (c1 c2 : com)
| CCond (b : expr) (c1 c2 : com)
| CWhile (b inv : expr) (c : com).

(* a command together with the pre / post lists compute_wp leaves on it *)
Inductive acom :=
| ASkip (pre post : list expr)
| AAssign (x : string) (e : expr) (pre post : list expr)
| ASeq (a1 a2 : acom) (pre post : list expr)
| ACond (b : expr) (a1 a2 : acom) (pre post : list expr)
| AWhile (b inv : expr) (a : acom) (pre post : list expr).

Definition a_pre (a : acom) : list expr :=
  match a with
  | ASkip p _ | AAssign _ _ p _ | ASeq _ _ p _ | ACond _ _ _ p _ | AWhile _ _ _ p _ => p
  end.

(* self.pre[0] *)
Definition hd_pre (a : acom) : expr := hd (EBool true) (a_pre a).

(* Com.compute_wp; pre0 is the pre list the command carries before the call
   ([P] for the top-level command, [I & b] for a loop body, [] otherwise) *)
Fixpoint compute_wp (c : com) (pre0 : list expr) (Q : expr) : acom :=
  match c with
  | CSkip => ASkip (pre0 ++ [Q]) [Q]
  | CAssign x e => AAssign x e (pre0 ++ [subst x e Q]) [Q]
  | CSeq c1 c2 =>
      let a2 := compute_wp c2 [] Q in
      let a1 := compute_wp c1 [] (hd_pre a2) in
      ASeq a1 a2 (pre0 ++ [hd_pre a1]) [Q]
  | CCond b c1 c2 =>
      let a1 := compute_wp c1 [] Q in
      let a2 := compute_wp c2 [] Q in
      ACond b a1 a2 (pre0 ++ [EIte b (hd_pre a1) (hd_pre a2)]) [Q]
  | CWhile b inv c =>
      let a := compute_wp c [e_conj inv b] inv in
      AWhile b inv a (pre0 ++ [inv]) [e_conj inv (e_neg b); Q]
  end.

(* add_vc in get_lines *)
Fixpoint vc_list (ls : list expr) : list expr :=
  match ls with
  | a :: rest =>
      match rest with
      | b :: _ => (if expr_eqb a (EBool true) then b else e_imp a b) :: vc_list rest
      | [] => []
      end
  | [] => []
  end.

(* get_vcs, in the order of get_lines *)
Fixpoint vcs (a : acom) : list expr :=
  match a with
  | ASkip pre _ => vc_list pre
  | AAssign _ _ pre _ => vc_list pre
  | ASeq a1 a2 pre _ => vc_list pre ++ vcs a1 ++ vcs a2
  | ACond _ a1 a2 pre _ => vc_list pre ++ vcs a1 ++ vcs a2
  | AWhile _ _ a pre post => vc_list pre ++ vcs a ++ vc_list post
  end.

(* the user-facing entry: c.pre = [P]; c.compute_wp(Q); c.get_vcs() *)
Definition vcg (P : expr) (c : com) (Q : expr) : list expr := vcs (compute_wp c [P] Q).

(* big-step semantics *)
Inductive exec : com -> astate -> astate -> Prop :=
| E_Skip : forall s, exec CSkip s s
| E_Assign : forall s x e z, eval (alook s) e = Some (VZ z) -> exec (CAssign x e) s (aupd s x z)
| E_Seq : forall c1 c2 s s1 s2, exec c1 s s1 -> exec c2 s1 s2 -> exec (CSeq c1 c2) s s2
| E_CondT : forall b c1 c2 s s', eval (alook s) b = Some (VBo true) -> exec c1 s s' -> exec (CCond b c1 c2) s s'
| E_CondF : forall b c1 c2 s s', eval (alook s) b = Some (VBo false) -> exec c2 s s' -> exec (CCond b c1 c2) s s'
| E_WhileF : forall b inv c s, eval (alook s) b = Some (VBo false) -> exec (CWhile b inv c) s s
| E_WhileT : forall b inv c s s1 s2, eval (alook s) b = Some (VBo true) -> exec c s s1 ->
               exec (CWhile b inv c) s1 s2 -> exec (CWhile b inv c) s s2.

(* reference interpreter (for the harness) *)
Fixpoint run (fuel : nat) (c : com) (s : astate) : option astate :=
  match fuel with
  | 0 => None
  | S f =>
      match c with
      | CSkip => Some s
      | CAssign x e =>
          match eval (alook s) e with Some (VZ z) => Some (aupd s x z) | _ => None end
      | CSeq c1 c2 => match run f c1 s with Some s1 => run f c2 s1 | None => None end
      | CCond b c1 c2 =>
          match eval (alook s) b with
          | Some (VBo true) => run f c1 s
          | Some (VBo false) => run f c2 s
          | _ => None
          end
      | CWhile b inv c1 =>
          match eval (alook s) b with
          | Some (VBo true) => match run f c1 s with Some s1 => run f c s1 | None => None end
          | Some (VBo false) => Some s
          | _ => None
          end
      end
  end.

Definition holdsb (s : astate) (e : expr) : bool :=
  match eval (alook s) e with Some (VBo true) => true | _ => false end.

(* ------------------------------------------------------------------ *)
(* Op.__str__ / ITE.__str__ / Const.__str__ (the printer as repaired by the
   "fix: print imperative expressions ..." commit) *)
From Coq Require Import DecimalString.

Definition Z_to_string (z : Z) : string := NilZero.string_of_int (Z.to_int z).

Definition is_arith_op (op : string) : bool :=
  String.eqb op "+" || String.eqb op "-" || String.eqb op "*".

Definition prio (op : string) : option nat :=
  if String.eqb op "&" then Some 35
  else if String.eqb op "|" then Some 30
  else if String.eqb op "-->" then Some 25
  else if String.eqb op "<-->" then Some 25
  else None.

Definition paren (b : bool) (s : string) : string := if b then "(" ++ s ++ ")" else s.

Definition is_open_expr (e : expr) : bool := match e with EIte _ _ _ => true | _ => false end.

Definition prio_le (e : expr) (p : nat) (strict : bool) : bool :=
  match e with
  | EBin o _ _ => match prio o with
                  | Some q => if strict then Nat.ltb q p else Nat.leb q p
                  | None => false
                  end
  | _ => false
  end.

Fixpoint show (e : expr) : string :=
  match e with
  | EVar x => x
  | ENum n => Z_to_string n
  | EBool b => if b then "true" else "false"
  | EUn op a =>
      let par :=
        if String.eqb op "-" then match a with EBin o _ _ => is_arith_op o | _ => false end
        else match a with
             | EBin o _ _ => match prio o with Some _ => true | None => false end
             | EUn o _ => String.eqb o "~"
             | EIte _ _ _ => true
             | _ => false
             end in
      op ++ paren par (show a)
  | EBin op a b =>
      let '(p1, p2) :=
        if is_arith_op op then
          (match a with
           | EBin o _ _ | EUn o _ => is_arith_op o
           | ENum n => Z.ltb n 0
           | _ => false
           end,
           String.eqb op "*" && match b with EBin o _ _ => String.eqb o "+" || String.eqb o "-" | _ => false end)
        else match prio op with
             | Some p => (prio_le a p false || is_open_expr a, prio_le b p true || is_open_expr b)
             | None => (false, false)
             end in
      paren p1 (show a) ++ " " ++ op ++ " " ++ paren p2 (show b)
  | EIte c a b => "if " ++ show c ++ " then " ++ show a ++ " else " ++ show b
  end.

(* ------------------------------------------------------------------ *)
(* search oracle: all states a run passes through *)
Fixpoint run_trace (fuel : nat) (c : com) (s : astate) : option (astate * list astate) :=
  match fuel with
  | 0 => None
  | S f =>
      match c with
      | CSkip => Some (s, [s])
      | CAssign x e =>
          match eval (alook s) e with
          | Some (VZ z) => if (1000000000000 <? Z.abs z)%Z then None   (* oracle only: keep numbers small *)
                           else Some (aupd s x z, [s; aupd s x z])
          | _ => None
          end
      | CSeq c1 c2 =>
          match run_trace f c1 s with
          | Some (s1, t1) => match run_trace f c2 s1 with
                             | Some (s2, t2) => Some (s2, s :: t1 ++ t2)
                             | None => None
                             end
          | None => None
          end
      | CCond b c1 c2 =>
          match eval (alook s) b with
          | Some (VBo true) => match run_trace f c1 s with Some (s1, t) => Some (s1, s :: t) | None => None end
          | Some (VBo false) => match run_trace f c2 s with Some (s1, t) => Some (s1, s :: t) | None => None end
          | _ => None
          end
      | CWhile b inv c1 =>
          match eval (alook s) b with
          | Some (VBo true) =>
              match run_trace f c1 s with
              | Some (s1, t1) => match run_trace f c s1 with
                                 | Some (s2, t2) => Some (s2, s :: t1 ++ t2)
                                 | None => None
                                 end
              | None => None
              end
          | Some (VBo false) => Some (s, [s])
          | _ => None
          end
      end
  end.

(* 1 = post holds (as the theorem demands) ; 0 = VIOLATION: every VC holds at
   every state of the run, the precondition holds initially, the run
   terminates, and the postcondition fails ; 2 = vacuous (some VC fails at a
   visited state, precondition false, run stuck or out of fuel) *)
Definition vc_oracle (vcs_impl : list expr) (P Q : expr) (c : com) (s0 : astate) (fuel : nat) : nat :=
  match run_trace fuel c s0 with
  | None => 2
  | Some (s', tr) =>
      if negb (holdsb s0 P) then 2
      else if negb (forallb (fun st => forallb (holdsb st) vcs_impl) (s0 :: s' :: tr)) then 2
      else if holdsb s' Q then 1 else 0
  end.

(* semantic comparison of two expressions on a list of states: 1 = same value everywhere *)
Definition val_eqb (a b : option val) : bool :=
  match a, b with
  | Some (VZ x), Some (VZ y) => Z.eqb x y
  | Some (VBo x), Some (VBo y) => Bool.eqb x y
  | None, None => true
  | _, _ => false
  end.

Definition same_on (states : list astate) (a b : expr) : bool :=
  forallb (fun s => val_eqb (eval (alook s) a) (eval (alook s) b)) states.

Fixpoint string_list_eqb (a b : list string) : bool :=
  match a, b with
  | [], [] => true
  | x :: a', y :: b' => String.eqb x y && string_list_eqb a' b'
  | _, _ => false
  end.
