(* Props_C09.v — property theorems for C09 (only statements closed by [exact]). *)
From Coq Require Import List String Bool Arith.
Import ListNotations.
From HolpyV Require Import Kernel KernelLemmas TyMatch FOMatch FOMatchSound FOMatchComplete.

(* Type matching (Type.match_incr): for types of consistent arity a successful
   match extends the given instantiation, binds every schematic type variable of
   the pattern and instantiates the pattern to the target. *)
Theorem C09_type_match_sound : forall ar p t s s', ty_wf ar p = true -> ty_wf ar t = true ->
  ty_match_incr p t s = Some s' ->
  extends s s' /\ binds s' (stvars p) /\ ty_subst s' p = t.
Proof. exact ty_match_ok. Qed.
Print Assumptions C09_type_match_sound.

(* First-order matching: whenever the model of first_order_match succeeds (at any
   binder depth, from any given instantiation), the result extends the given
   instantiation without altering it, binds everything in the pattern, and the
   instantiated pattern equals the target.
   PARTIAL with respect to C09: the higher-order (Miller / heuristic) branches
   are validated per instance by the harness, not proved. *)
Theorem C09_first_order_match_sound : forall ar pat t depth I I',
  tm_wf ar pat = true -> tm_wf ar t = true ->
  fo_match pat t depth I = Some I' ->
  m_extends I I' /\ covered I' pat /\ tm_eqb (apply_inst I' pat) t = true.
Proof. exact fo_match_sound. Qed.
Print Assumptions C09_first_order_match_sound.

(* Completeness for first-order patterns: if some closed, type-correct
   instantiation J of the pattern equals the target (up to bound names), then
   matching succeeds from every given instantiation below J (in particular from
   the empty one), and the result is again below J.  [good J pat depth]: J binds
   every schematic (type) variable of the pattern, replacements are closed and
   have the instantiated type of their variable, bound variables of the pattern
   refer to enclosing binders. *)
Theorem C09_first_order_match_complete : forall pat t depth I J,
  m_le I J -> good J pat depth -> tm_eqb (apply_inst J pat) t = true ->
  exists I', fo_match pat t depth I = Some I' /\ m_le I I' /\ m_le I' J.
Proof. exact fo_match_complete. Qed.
Print Assumptions C09_first_order_match_complete.

Theorem C09_type_match_complete : forall T s sJ, extends s sJ -> binds sJ (stvars T) ->
  exists s', ty_match_incr T (ty_subst sJ T) s = Some s' /\ extends s s' /\ extends s' sJ.
Proof. exact ty_match_complete. Qed.
Print Assumptions C09_type_match_complete.

(* the instance of an already matched part never changes later *)
Theorem C09_instance_stable : forall I J p, m_extends I J -> covered I p -> apply_inst J p = apply_inst I p.
Proof. exact apply_stable. Qed.
Print Assumptions C09_instance_stable.

(* non-vacuity / the historical capture confusion: F ?x (%y. ?x) does not match
   F y (%y. y) *)
Example C09_example :
  let T := TVar "a" in
  let F := Var "F" (TFun T (TFun (TFun T T) BoolT)) in
  fo_match (Comb (Comb F (SVar "x" T)) (Abs "y" T (SVar "x" T)))
           (Comb (Comb F (Var "y" T)) (Abs "y" T (Bound 0))) 0 (mkM [] []) = None /\
  (exists I, fo_match (Comb (Comb F (SVar "x" T)) (Abs "y" T (SVar "x" T)))
                      (Comb (Comb F (Var "z" T)) (Abs "y" T (Var "z" T))) 0 (mkM [] []) = Some I).
Proof. vm_compute. split; [reflexivity | eexists; reflexivity]. Qed.

(* non-vacuity of the completeness hypotheses: J = {?x := z, 'a := nat} is good for
   F ?x (%y. ?x) with F : '?a => ('?a => '?a) => bool *)
Example C09_complete_example :
  let A := STVar "a" in let N := TConst "nat" [] in
  let F T := Var "F" (TFun T (TFun (TFun T T) BoolT)) in
  let pat := Comb (Comb (F A) (SVar "x" A)) (Abs "y" A (SVar "x" A)) in
  let J := mkM [("x", Var "z" N)] [("a", N)] in
  good J pat 0 /\ m_le (mkM [] []) J /\
  tm_eqb (apply_inst J pat) (Comb (Comb (F N) (Var "z" N)) (Abs "w" N (Var "z" N))) = true.
Proof.
  cbn. repeat split; try (intros n U H; discriminate);
    try (intros n Hn; repeat (destruct Hn as [<-|Hn]; [cbn; discriminate|]); destruct Hn);
    try (eexists; split; [reflexivity|]; split; reflexivity).
Qed.
