(* Props_C02.v — property theorems for C02 (statements closed by [exact]). *)
From Coq Require Import List String Bool Arith.
Import ListNotations.
From HolpyV Require Import Kernel Check CheckSound.

(* A proof accepted with gaps disallowed concludes a sequent in the inductive
   closure [Good] of the rule functions (primitive rules, theory theorems,
   variable declarations, trusted macro evaluations) under can_prove-weakening
   and the typing gate: every step was justified from steps verified earlier in
   the same run.  Holds for every proof object, whatever ids, citations, stated
   sequents and nesting it carries, and for arbitrary rule/macro functions. *)
Theorem C02_check_sound : forall kfx thy macros check_level fuel prf th gaps root,
  check_proof cfixes_on kfx thy macros true check_level fuel prf = Accept (Some th) gaps root ->
  Good kfx thy macros check_level th.
Proof. exact check_sound. Qed.
Print Assumptions C02_check_sound.

(* The dependency rule only admits an earlier sibling of the citing step or of
   one of its ancestors: no forward, circular or into-a-closed-block citation. *)
Theorem C02_citations_earlier : forall self other,
  can_depend_on self other = true ->
  exists k j, k < List.length self /\ other = firstn k self ++ [j] /\ j < nth k self 0.
Proof. exact can_depend_on_vis. Qed.
Print Assumptions C02_citations_earlier.

(* A stated sequent is accepted only if the rule's actual result proves it. *)
Theorem C02_stated_not_stronger : forall root path stated res gaps root' gaps',
  finish_item root path stated res gaps = Some (root', gaps') ->
  exists r s, res = Some r /\ can_prove r s = true /\ check_thm_type s = true /\
              (stated = Some s \/ (stated = None /\ s = r)) /\
              root' = update_item root path (set_th (Some s)) /\ gaps' = gaps.
Proof. exact finish_item_spec. Qed.
Print Assumptions C02_stated_not_stronger.

(* With gaps disallowed a placeholder met at any nesting depth is refused. *)
Theorem C02_no_gaps_refuses_sorry : forall kfx thy macros check_level cfx fuel root p gaps id args prevs th sub,
  find_item root p = Some (Item id "sorry" args prevs th sub) ->
  check_item cfx kfx thy macros true check_level fuel root p gaps = None.
Proof. exact sorry_refused. Qed.
Print Assumptions C02_no_gaps_refuses_sorry.

(* With gaps allowed a placeholder is reported, exactly once, and nothing else changes. *)
Theorem C02_gap_reported : forall kfx thy macros check_level fuel root p gaps args prevs g sub,
  find_item root p = Some (Item p "sorry" args prevs (Some g) sub) ->
  check_item cfixes_on kfx thy macros false check_level (S fuel) root p gaps = Some (root, gaps ++ [g]).
Proof. exact sorry_reported. Qed.
Print Assumptions C02_gap_reported.

(* A theorem extension is installed as proved only with a gap-free accepted
   proof whose conclusion proves the stated theorem. *)
Theorem C02_extend_sound : forall kfx thy macros fuel stated prf,
  checked_extend_thm cfixes_on kfx thy macros fuel stated prf = Some (true, false) ->
  exists p r, prf = Some p /\ Good kfx thy macros 0 r /\ can_prove r stated = true.
Proof. exact extend_sound. Qed.
Print Assumptions C02_extend_sound.

(* Non-vacuity: a two-step proof is accepted by the model checker. *)
Example C02_accepts_something :
  let A := Var "A" BoolT in
  exists root, check_proof cfixes_on fixes_on (fun _ => None) (fun _ => None) true 0 10
    [Item [0] "assume" (ATerm A) [] None None;
     Item [1] "implies_intr" (ATerm A) [[0]] None None]
  = Accept (Some (mkThm [] (mk_implies A A))) [] root.
Proof. eexists. vm_compute. reflexivity. Qed.

(* History: with the repairs switched off the model (like the code before the
   fix commits) accepts |- false from a single self-citing step. *)
Example C02_id_position_refuted :
  let F := mkThm [] (Const "false" BoolT) in
  exists root, check_proof cfixes_off fixes_on (fun _ => None) (fun _ => None) true 0 10
    [Item [1] "substitution" (AInst (mkInst [] [] [] [])) [[0]] (Some F) None]
  = Accept (Some F) [] root.
Proof. eexists. vm_compute. reflexivity. Qed.
