(* Unify.v — model of server/items.py types_overlap (definitions only).
   The two types get independent variables by tagging every variable name with
   the side ("0" / "1"); both TVar and STVar are unification variables.  The
   algorithm is the implementation's: a triangular substitution, find through
   variable bindings, occurs check, binding of a variable to the found form of
   the other side, constructor clash on different names / argument counts.
   Recursion is on explicit fuel; [None] = fuel exhausted. *)
From Coq Require Import List String Bool Arith.
Import ListNotations.
From HolpyV Require Import Kernel.
Open Scope string_scope.
Open Scope list_scope.

Definition uvar := (bool * string)%type.          (* is_stvar, tagged name *)
Definition uvar_eqb (a b : uvar) : bool := Bool.eqb (fst a) (fst b) && String.eqb (snd a) (snd b).

Fixpoint tag (c : string) (T : ty) : ty :=
  match T with
  | STVar n => STVar (c ++ n)
  | TVar n => TVar (c ++ n)
  | TConst n args => TConst n (map (tag c) args)
  end.

Definition as_var (T : ty) : option uvar :=
  match T with STVar n => Some (true, n) | TVar n => Some (false, n) | TConst _ _ => None end.

Definition binding := list (uvar * ty).

Fixpoint lookupv (v : uvar) (s : binding) : option ty :=
  match s with
  | [] => None
  | (w, U) :: s' => if uvar_eqb v w then Some U else lookupv v s'
  end.

Fixpoint find (fuel : nat) (s : binding) (T : ty) : option ty :=
  match fuel with
  | 0 => None
  | S f =>
      match as_var T with
      | Some v => match lookupv v s with Some U => find f s U | None => Some T end
      | None => Some T
      end
  end.

Fixpoint occurs (fuel : nat) (s : binding) (v : uvar) (T : ty) : option bool :=
  match fuel with
  | 0 => None
  | S f =>
      match find f s T with
      | None => None
      | Some T' =>
          match T' with
          | TConst _ args =>
              (fix go (l : list ty) : option bool :=
                 match l with
                 | [] => Some false
                 | a :: r =>
                     match occurs f s v a with
                     | None => None
                     | Some true => Some true
                     | Some false => go r
                     end
                 end) args
          | _ => match as_var T' with Some w => Some (uvar_eqb w v) | None => Some false end
          end
      end
  end.

(* Some None = not unifiable; Some (Some s') = unified, new bindings s' *)
Fixpoint unify (fuel : nat) (s : binding) (A B : ty) : option (option binding) :=
  match fuel with
  | 0 => None
  | S f =>
      match find f s A, find f s B with
      | Some A', Some B' =>
          let bind (v : uvar) (U : ty) : option (option binding) :=
            match occurs f s v U with
            | None => None
            | Some true => Some None
            | Some false => Some (Some ((v, U) :: s))
            end in
          match as_var A', as_var B' with
          | Some va, Some vb => if uvar_eqb va vb then Some (Some s) else bind va B'
          | Some va, None => bind va B'
          | None, Some vb => bind vb A'
          | None, None =>
              match A', B' with
              | TConst n args, TConst m brgs =>
                  if String.eqb n m && Nat.eqb (List.length args) (List.length brgs) then
                    (fix go (l1 l2 : list ty) (s : binding) : option (option binding) :=
                       match l1, l2 with
                       | a :: r1, b :: r2 =>
                           match unify f s a b with
                           | None => None
                           | Some None => Some None
                           | Some (Some s') => go r1 r2 s'
                           end
                       | _, _ => Some (Some s)
                       end) args brgs s
                  else Some None
              | _, _ => Some None
              end
          end
      | _, _ => None
      end
  end.

Definition overlap (fuel : nat) (T1 T2 : ty) : option bool :=
  match unify fuel [] (tag "0" T1) (tag "1" T2) with
  | None => None
  | Some None => Some false
  | Some (Some _) => Some true
  end.

(* harness glue: 1 = the implementation's verdict equals the model's; 2 = fuel exhausted *)
Definition case_overlap (T1 T2 : ty) (impl : bool) : nat :=
  match overlap 400 T1 T2 with
  | None => 2
  | Some b => if Bool.eqb b impl then 1 else 0
  end.

(* instantiation of all type variables of a type (schematic or not) *)
Fixpoint ty_inst (f : bool -> string -> ty) (T : ty) : ty :=
  match T with
  | STVar n => f true n
  | TVar n => f false n
  | TConst n args => TConst n (map (ty_inst f) args)
  end.
