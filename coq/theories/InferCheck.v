(* InferCheck.v — verified checker for results of type inference (C08):
   a boolean test of everything the property demands of a returned term, with
   the proof that the test implies the specification. *)
From Coq Require Import List String Bool Arith.
Import ListNotations.
From HolpyV Require Import Kernel KernelLemmas TyMatch.
Open Scope string_scope.
Open Scope list_scope.
Open Scope nat_scope.

(* term skeletons: type annotations may be missing *)
Inductive sk :=
| KSVar (n : string) (T : option ty)
| KVar (n : string) (T : option ty)
| KConst (n : string) (T : option ty)
| KComb (f a : sk)
| KAbs (x : string) (T : option ty) (b : sk)
| KBound (k : nat).

(* ---- specification ---------------------------------------------------- *)
Inductive keeps : option ty -> ty -> Prop :=
| keeps_none : forall T, keeps None T
| keeps_some : forall T, keeps (Some T) T.

(* same shape, names and indices; every given annotation kept *)
Inductive shape : sk -> tm -> Prop :=
| sh_svar : forall n o T, keeps o T -> shape (KSVar n o) (SVar n T)
| sh_var : forall n o T, keeps o T -> shape (KVar n o) (Var n T)
| sh_const : forall n o T, keeps o T -> shape (KConst n o) (Const n T)
| sh_comb : forall f a g b, shape f g -> shape a b -> shape (KComb f a) (Comb g b)
| sh_abs : forall x o T b c, keeps o T -> shape b c -> shape (KAbs x o b) (Abs x T c)
| sh_bound : forall k, shape (KBound k) (Bound k).

(* occurrences: (is_schematic, name, type) of variables; (name, type) of constants; all annotations *)
Fixpoint var_occs (t : tm) : list (bool * string * ty) :=
  match t with
  | SVar n T => [(true, n, T)]
  | Var n T => [(false, n, T)]
  | Comb f a => var_occs f ++ var_occs a
  | Abs _ _ b => var_occs b
  | _ => []
  end.
Fixpoint const_occs (t : tm) : list (string * ty) :=
  match t with
  | Const n T => [(n, T)]
  | Comb f a => const_occs f ++ const_occs a
  | Abs _ _ b => const_occs b
  | _ => []
  end.
Fixpoint annots (t : tm) : list ty :=
  match t with
  | SVar _ T | Var _ T | Const _ T => [T]
  | Comb f a => annots f ++ annots a
  | Abs _ T b => T :: annots b
  | Bound _ => []
  end.

Definition one_type (t : tm) : Prop :=
  forall b n T U, In (b, n, T) (var_occs t) -> In (b, n, U) (var_occs t) -> T = U.

Definition declared_kept (ctxV ctxS : list (string * ty)) (t : tm) : Prop :=
  forall b n T, In (b, n, T) (var_occs t) ->
  forall D, lookup n (if b then ctxS else ctxV) = Some D -> T = D.

Definition consts_instances (sig : string -> option ty) (t : tm) : Prop :=
  forall n T, In (n, T) (const_occs t) -> exists D s, sig n = Some D /\ ty_subst s D = T.

Definition is_internal (n : string) : bool := String.prefix "_t" n.

Definition no_internal (t : tm) : Prop :=
  forall T n, In T (annots t) -> In n (stvars T) -> is_internal n = false.

Definition infer_spec (sig : string -> option ty) (ctxV ctxS : list (string * ty)) (k : sk) (t : tm) : Prop :=
  shape k t /\ (exists T, checked_get_type t = Some T) /\ one_type t /\ declared_kept ctxV ctxS t /\
  consts_instances sig t /\ no_internal t.

(* ---- the checker -------------------------------------------------------- *)
Definition keepsb (o : option ty) (T : ty) : bool :=
  match o with None => true | Some U => ty_eqb U T end.

Fixpoint shapeb (k : sk) (t : tm) : bool :=
  match k, t with
  | KSVar n o, SVar m T => String.eqb n m && keepsb o T
  | KVar n o, Var m T => String.eqb n m && keepsb o T
  | KConst n o, Const m T => String.eqb n m && keepsb o T
  | KComb f a, Comb g b => shapeb f g && shapeb a b
  | KAbs x o b, Abs y T c => String.eqb x y && keepsb o T && shapeb b c
  | KBound i, Bound j => Nat.eqb i j
  | _, _ => false
  end.

Definition occ_eqb (a b : bool * string * ty) : bool :=
  let '(b1, n1, T1) := a in let '(b2, n2, T2) := b in Bool.eqb b1 b2 && String.eqb n1 n2 && ty_eqb T1 T2.

(* every pair of occurrences of the same variable has the same type *)
Definition one_typeb (t : tm) : bool :=
  let l := var_occs t in
  forallb (fun a : bool * string * ty => forallb (fun b : bool * string * ty =>
    let '(b1, n1, T1) := a in let '(b2, n2, T2) := b in
    negb (Bool.eqb b1 b2 && String.eqb n1 n2) || ty_eqb T1 T2) l) l.

Definition declared_keptb (ctxV ctxS : list (string * ty)) (t : tm) : bool :=
  forallb (fun a : bool * string * ty => let '(b, n, T) := a in
             match lookup n (if b then ctxS else ctxV) with Some D => ty_eqb T D | None => true end) (var_occs t).

Definition inst_ofb (D T : ty) : bool :=
  match ty_match_incr D T [] with
  | Some s => ty_eqb (ty_subst s D) T
  | None => false
  end.

Definition consts_instancesb (sig : string -> option ty) (t : tm) : bool :=
  forallb (fun c => match sig (fst c) with Some D => inst_ofb D (snd c) | None => false end) (const_occs t).

Definition no_internalb (t : tm) : bool :=
  forallb (fun T => forallb (fun n => negb (is_internal n)) (stvars T)) (annots t).

Definition infer_ok (sig : string -> option ty) (ctxV ctxS : list (string * ty)) (k : sk) (t : tm) : bool :=
  shapeb k t && (match checked_get_type t with Some _ => true | None => false end) && one_typeb t &&
  declared_keptb ctxV ctxS t && consts_instancesb sig t && no_internalb t.

(* which conjunct fails first (for reports): 0 = all hold *)
Definition infer_diag (sig : string -> option ty) (ctxV ctxS : list (string * ty)) (k : sk) (t : tm) : nat :=
  if negb (shapeb k t) then 2
  else if (match checked_get_type t with Some _ => false | None => true end) then 3
  else if negb (one_typeb t) then 4
  else if negb (declared_keptb ctxV ctxS t) then 5
  else if negb (consts_instancesb sig t) then 6
  else if negb (no_internalb t) then 7
  else 1.

(* ---- the test implies the specification ------------------------------------- *)
Lemma keepsb_ok : forall o T, keepsb o T = true -> keeps o T.
Proof. intros [U|] T H; cbn in H; [apply ty_eqb_eq in H; subst; constructor | constructor]. Qed.

Lemma shapeb_ok : forall k t, shapeb k t = true -> shape k t.
Proof.
  induction k as [n o|n o|n o|f IHf a IHa|x o b IHb|i]; intros t H; destruct t as [m T|m T|m T|g c|y T c|j]; cbn [shapeb] in H; try discriminate.
  - apply andb_true_iff in H. destruct H as [H1 H2]. apply String.eqb_eq in H1. subst. constructor. apply keepsb_ok. exact H2.
  - apply andb_true_iff in H. destruct H as [H1 H2]. apply String.eqb_eq in H1. subst. constructor. apply keepsb_ok. exact H2.
  - apply andb_true_iff in H. destruct H as [H1 H2]. apply String.eqb_eq in H1. subst. constructor. apply keepsb_ok. exact H2.
  - apply andb_true_iff in H. destruct H as [H1 H2]. constructor; auto.
  - apply andb_true_iff in H. destruct H as [H H3]. apply andb_true_iff in H. destruct H as [H1 H2]. apply String.eqb_eq in H1. subst.
    constructor; [apply keepsb_ok; exact H2 | auto].
  - apply Nat.eqb_eq in H. subst. constructor.
Qed.

Lemma one_typeb_ok : forall t, one_typeb t = true -> one_type t.
Proof.
  intros t H b n T U H1 H2. unfold one_typeb in H. rewrite forallb_forall in H.
  specialize (H _ H1). rewrite forallb_forall in H. specialize (H _ H2). cbn in H.
  rewrite eqb_reflx, String.eqb_refl in H. cbn in H. apply ty_eqb_eq in H. exact H.
Qed.

Lemma declared_keptb_ok : forall ctxV ctxS t, declared_keptb ctxV ctxS t = true -> declared_kept ctxV ctxS t.
Proof.
  intros ctxV ctxS t H b n T Hin D HD. unfold declared_keptb in H. rewrite forallb_forall in H. specialize (H _ Hin). cbn in H.
  rewrite HD in H. apply ty_eqb_eq in H. exact H.
Qed.

Lemma consts_instancesb_ok : forall sig t, consts_instancesb sig t = true -> consts_instances sig t.
Proof.
  intros sig t H n T Hin. unfold consts_instancesb in H. rewrite forallb_forall in H. specialize (H _ Hin). cbn [fst snd] in H.
  destruct (sig n) as [D|]; [|discriminate]. unfold inst_ofb in H. destruct (ty_match_incr D T []) as [s|]; [|discriminate].
  apply ty_eqb_eq in H. exists D, s. auto.
Qed.

Lemma no_internalb_ok : forall t, no_internalb t = true -> no_internal t.
Proof.
  intros t H T n HT Hn. unfold no_internalb in H. rewrite forallb_forall in H. specialize (H _ HT). rewrite forallb_forall in H.
  specialize (H _ Hn). apply negb_true_iff in H. exact H.
Qed.

Theorem infer_ok_sound : forall sig ctxV ctxS k t, infer_ok sig ctxV ctxS k t = true -> infer_spec sig ctxV ctxS k t.
Proof.
  intros sig ctxV ctxS k t H. unfold infer_ok in H.
  apply andb_true_iff in H. destruct H as [H H6]. apply andb_true_iff in H. destruct H as [H H5].
  apply andb_true_iff in H. destruct H as [H H4]. apply andb_true_iff in H. destruct H as [H H3].
  apply andb_true_iff in H. destruct H as [H1 H2].
  split; [apply shapeb_ok; exact H1|]. split; [destruct (checked_get_type t) as [T|]; [eauto | discriminate]|].
  split; [apply one_typeb_ok; exact H3|]. split; [apply declared_keptb_ok; exact H4|].
  split; [apply consts_instancesb_ok; exact H5 | apply no_internalb_ok; exact H6].
Qed.

(* erasure: the skeleton of a term, keeping the annotations selected by the flags *)
Fixpoint erase_to (keep_var keep_const keep_abs : bool) (t : tm) : sk :=
  match t with
  | SVar n T => KSVar n (if keep_var then Some T else None)
  | Var n T => KVar n (if keep_var then Some T else None)
  | Const n T => KConst n (if keep_const then Some T else None)
  | Comb f a => KComb (erase_to keep_var keep_const keep_abs f) (erase_to keep_var keep_const keep_abs a)
  | Abs x T b => KAbs x (if keep_abs then Some T else None) (erase_to keep_var keep_const keep_abs b)
  | Bound k => KBound k
  end.

(* a result with the shape of a fully annotated skeleton is that term *)
Theorem shape_full_annot : forall t u, shape (erase_to true true true t) u -> u = t.
Proof.
  induction t as [n T|n T|n T|f IHf a IHa|x T b IHb|k]; intros u H; cbn [erase_to] in H; inversion H; subst;
    try match goal with K : keeps (Some _) _ |- _ => inversion K; subst end; try reflexivity.
  - f_equal; auto.
  - f_equal; auto.
Qed.
