(* Alethe2.v — model of the evaluation (acceptance) conditions of 24 further
   propositional veriT step rules of smt/veriT/verit_macro.py (the clause rules for
   or / and / implies / equiv / xor / ite and contraction), over formulas whose
   non-propositional subterms are opaque atoms.  Definitions only.
   Each function follows the eval method of the rule line by line: the number of
   arguments and premises it insists on, the shapes it tests, the comparisons it
   makes, the clause it returns (the disjunction of args is mk_or args). *)
From Coq Require Import List String Bool Arith.
Import ListNotations.
From HolpyV Require Import TruthTable Alethe.
Open Scope string_scope.
Open Scope list_scope.

(* VeriTOrNeg: (p1 | ... | pn) | ~pk ; the loop looks at both operands of every
   disjunction on the right spine *)
Fixpoint or_search (x d : pf) : bool :=
  match d with
  | POr a b => pf_eqb a x || pf_eqb b x || or_search x b
  | _ => false
  end.

Definition acc_or_neg (args prems : list pf) : option pf :=
  match args with
  | [POr _ _ as d; PNot x] => if or_search x d then Some (mk_or args) else None
  | _ => None
  end.

(* EquivPos1 / EquivPos2 (as repaired: the first literal must be a negated equivalence) *)
Definition acc_equiv_pos1 (args prems : list pf) : option pf :=
  match args with
  | [PNot (PIff a b); p2; p3] => if pf_eqb a p2 && pf_eqb (PNot b) p3 then Some (mk_or args) else None
  | _ => None
  end.

Definition acc_equiv_pos2 (args prems : list pf) : option pf :=
  match args with
  | [PNot (PIff a b); p2; p3] => if pf_eqb (PNot a) p2 && pf_eqb b p3 then Some (mk_or args) else None
  | _ => None
  end.

(* the code before the repair: the operands of whatever sits under the first literal's head *)
Definition operands (f : pf) : option (pf * pf) :=
  match f with
  | PAnd a b | POr a b | PImp a b | PIff a b | PXor a b => Some (a, b)
  | _ => None
  end.

Definition acc_equiv_pos1_historical (args prems : list pf) : option pf :=
  match args with
  | [PNot f; p2; p3] =>
      match operands f with
      | Some (a, b) => if pf_eqb a p2 && pf_eqb (PNot b) p3 then Some (mk_or args) else None
      | None => None
      end
  | _ => None
  end.

Definition acc_equiv_neg1 (args prems : list pf) : option pf :=
  match args with
  | [PIff a b; p1; p2] => if pf_eqb p1 (PNot a) && pf_eqb p2 (PNot b) then Some (mk_or args) else None
  | _ => None
  end.

Definition acc_equiv_neg2 (args prems : list pf) : option pf :=
  match args with
  | [PIff a b; p1; p2] => if pf_eqb p1 a && pf_eqb p2 b then Some (mk_or args) else None
  | _ => None
  end.

(* ITE1 / ITE2: one premise if c then a else b *)
Definition acc_ite1 (args prems : list pf) : option pf :=
  match args, prems with
  | [a1; a2], [PIte c a b] => if pf_eqb a1 c && pf_eqb a2 b then Some (POr a1 a2) else None
  | _, _ => None
  end.

Definition acc_ite2 (args prems : list pf) : option pf :=
  match args, prems with
  | [a1; a2], [PIte c a b] => if pf_eqb a1 (PNot c) && pf_eqb a2 a then Some (POr a1 a2) else None
  | _, _ => None
  end.

(* AndNegMacro: walks down the conjunction; stops early when the negation of the
   rest equals the last argument *)
Fixpoint and_neg_expected (last cj : pf) : list pf :=
  match cj with
  | PAnd a b => PNot a :: (if pf_eqb (PNot b) last then [PNot b] else and_neg_expected last b)
  | _ => [PNot cj]
  end.

Definition acc_and_neg (args prems : list pf) : option pf :=
  match args with
  | cj :: rest =>
      if pf_list_eqb rest (and_neg_expected (List.last args cj) cj) then Some (mk_or args) else None
  | [] => None
  end.

(* ContractionMacro: duplicates of the premise's disjuncts removed, first occurrences kept *)
Fixpoint dedup_acc (seen l : list pf) : list pf :=
  match l with
  | [] => []
  | x :: l' => if mem_pf x seen then dedup_acc seen l' else x :: dedup_acc (x :: seen) l'
  end.

Definition acc_contraction (args prems : list pf) : option pf :=
  match prems with
  | [prev] => if pf_list_eqb (dedup_acc [] (strip_disj prev)) args then Some (mk_or args) else None
  | _ => None
  end.

Definition acc_implies_pos (args prems : list pf) : option pf :=
  match args with
  | [PNot (PImp a b); PNot a'; c] => if pf_eqb a a' && pf_eqb b c then Some (mk_or args) else None
  | _ => None
  end.

Definition acc_implies_neg1 (args prems : list pf) : option pf :=
  match args with
  | [PImp a b; x] => if pf_eqb a x then Some (mk_or args) else None
  | _ => None
  end.

Definition acc_implies_neg2 (args prems : list pf) : option pf :=
  match args with
  | [PImp a b; x] => if pf_eqb (PNot b) x then Some (mk_or args) else None
  | _ => None
  end.

(* NotImplies1 / NotImplies2: the result is the single argument *)
Definition acc_not_implies1 (args prems : list pf) : option pf :=
  match args, prems with
  | [goal], [PNot (PImp a b)] => if pf_eqb goal a then Some goal else None
  | _, _ => None
  end.

Definition acc_not_implies2 (args prems : list pf) : option pf :=
  match args, prems with
  | [goal], [PNot (PImp a b)] => if pf_eqb goal (PNot b) then Some goal else None
  | _, _ => None
  end.

Definition acc_ite_pos1 (args prems : list pf) : option pf :=
  match args with
  | [PNot (PIte p1 p2 p3); a2; a3] => if pf_eqb p1 a2 && pf_eqb p3 a3 then Some (mk_or args) else None
  | _ => None
  end.

Definition acc_ite_pos2 (args prems : list pf) : option pf :=
  match args with
  | [PNot (PIte p1 p2 p3); PNot q1; a3] => if pf_eqb p1 q1 && pf_eqb p2 a3 then Some (mk_or args) else None
  | _ => None
  end.

Definition acc_ite_neg1 (args prems : list pf) : option pf :=
  match args with
  | [PIte p1 p2 p3; a2; PNot _ as a3] => if pf_eqb p1 a2 && pf_eqb (PNot p3) a3 then Some (mk_or args) else None
  | _ => None
  end.

Definition acc_ite_neg2 (args prems : list pf) : option pf :=
  match args with
  | [PIte p1 p2 p3; PNot _ as a2; PNot _ as a3] =>
      if pf_eqb (PNot p1) a2 && pf_eqb (PNot p2) a3 then Some (mk_or args) else None
  | _ => None
  end.

Definition acc_not_ite1 (args prems : list pf) : option pf :=
  match args, prems with
  | [q1; PNot _ as q2], [PNot (PIte p1 p2 p3)] => if pf_eqb p1 q1 && pf_eqb (PNot p3) q2 then Some (mk_or args) else None
  | _, _ => None
  end.

Definition acc_not_ite2 (args prems : list pf) : option pf :=
  match args, prems with
  | [PNot _ as q1; PNot _ as q2], [PNot (PIte p1 p2 p3)] =>
      if pf_eqb (PNot p1) q1 && pf_eqb (PNot p2) q2 then Some (mk_or args) else None
  | _, _ => None
  end.

Definition acc_xor_pos1 (args prems : list pf) : option pf :=
  match args with
  | [PNot (PXor t1 t2); q; r] => if pf_eqb t1 q && pf_eqb t2 r then Some (mk_or args) else None
  | _ => None
  end.

Definition acc_xor_pos2 (args prems : list pf) : option pf :=
  match args with
  | [PNot (PXor t1 t2); PNot _ as q; PNot _ as r] =>
      if pf_eqb (PNot t1) q && pf_eqb (PNot t2) r then Some (mk_or args) else None
  | _ => None
  end.

Definition acc_xor_neg1 (args prems : list pf) : option pf :=
  match args with
  | [PXor t1 t2; q; PNot _ as r] => if pf_eqb t1 q && pf_eqb (PNot t2) r then Some (mk_or args) else None
  | _ => None
  end.

Definition acc_xor_neg2 (args prems : list pf) : option pf :=
  match args with
  | [PXor t1 t2; PNot _ as q; r] => if pf_eqb (PNot t1) q && pf_eqb t2 r then Some (mk_or args) else None
  | _ => None
  end.

Definition rules2 : list (string * (list pf -> list pf -> option pf)) :=
  [("verit_or_neg", acc_or_neg); ("verit_equiv_pos1", acc_equiv_pos1); ("verit_equiv_pos2", acc_equiv_pos2);
   ("verit_equiv_neg1", acc_equiv_neg1); ("verit_equiv_neg2", acc_equiv_neg2);
   ("verit_ite1", acc_ite1); ("verit_ite2", acc_ite2); ("verit_and_neg", acc_and_neg);
   ("verit_contraction", acc_contraction); ("verit_implies_pos", acc_implies_pos);
   ("verit_implies_neg1", acc_implies_neg1); ("verit_implies_neg2", acc_implies_neg2);
   ("verit_not_implies1", acc_not_implies1); ("verit_not_implies2", acc_not_implies2);
   ("verit_ite_pos1", acc_ite_pos1); ("verit_ite_pos2", acc_ite_pos2);
   ("verit_ite_neg1", acc_ite_neg1); ("verit_ite_neg2", acc_ite_neg2);
   ("verit_not_ite1", acc_not_ite1); ("verit_not_ite2", acc_not_ite2);
   ("verit_xor_pos1", acc_xor_pos1); ("verit_xor_pos2", acc_xor_pos2);
   ("verit_xor_neg1", acc_xor_neg1); ("verit_xor_neg2", acc_xor_neg2)].

Fixpoint lookup_rule (rule : string) (l : list (string * (list pf -> list pf -> option pf)))
  : option (list pf -> list pf -> option pf) :=
  match l with
  | [] => None
  | (n, f) :: l' => if String.eqb rule n then Some f else lookup_rule rule l'
  end.

Definition accept2 (rule : string) (args prems : list pf) : option pf :=
  match lookup_rule rule rules2 with
  | Some f => f args prems
  | None => None
  end.

(* all 37 modelled clause rules *)
Definition accept_all (rule : string) (args prems : list pf) : option pf :=
  if existsb (String.eqb rule) modelled_rules then accept rule args prems else accept2 rule args prems.

Definition modelled_rules2 : list string := map fst rules2.
