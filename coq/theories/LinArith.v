(* LinArith.v — model of the step functions of prover/omega.py (factoids,
   combine_real_factoid, combine_dark_factoid, gcd tightening), of its
   Derivation objects, and verified certificate checkers (witness, Farkas,
   derivation) used to validate the verdicts of the Omega test and of simplex.
   Definitions only. *)
From Coq Require Import List ZArith QArith Bool.
Import ListNotations.
Open Scope Z_scope.

(* a factoid [c0; ...; c(n-1); c] means 0 <= c0*x0 + ... + c(n-1)*x(n-1) + c *)
Definition factoid := list Z.

Fixpoint feval (x : nat -> Z) (i : nat) (f : factoid) : Z :=
  match f with
  | [] => 0
  | [c] => c
  | a :: rest => a * x i + feval x (S i) rest
  end.
Definition fholds (x : nat -> Z) (f : factoid) : bool := 0 <=? feval x 0 f.
Definition all_hold (x : nat -> Z) (fs : list factoid) : bool := forallb (fholds x) fs.

Fixpoint zip_with (g : Z -> Z -> Z) (a b : factoid) : factoid :=
  match a, b with
  | x :: a', y :: b' => g x y :: zip_with g a' b'
  | _, _ => []
  end.

(* combine_real_factoid i f1 f2 : requires f1[i] > 0, f2[i] < 0, i < len f1 - 1 *)
Definition combine_real (i : nat) (f1 f2 : factoid) : option factoid :=
  let c0 := nth i f1 0 in let d0 := - nth i f2 0 in
  if (0 <? c0) && (0 <? d0) && (Nat.ltb (S i) (length f1)) then
    let g := Z.gcd c0 d0 in
    let c := c0 / g in let d := d0 / g in
    Some (zip_with (fun m n => c * n + d * m) f1 f2)
  else None.

Fixpoint set_last (f : factoid) (g : Z -> Z) : factoid :=
  match f with
  | [] => []
  | [c] => [g c]
  | a :: rest => a :: set_last rest g
  end.

Definition combine_dark (i : nat) (f1 f2 : factoid) : option factoid :=
  let a := nth i f1 0 in let b := - nth i f2 0 in
  if (0 <? a) && (0 <? b) && (Nat.ltb (S i) (length f1)) then
    Some (set_last (zip_with (fun m n => a * n + b * m) f1 f2) (fun c => c - (a - 1) * (b - 1)))
  else None.

(* gcd of the variable coefficients; division of every entry with floor *)
Fixpoint key_gcd (f : factoid) : Z :=
  match f with
  | [] => 0
  | [c] => 0
  | a :: rest => Z.gcd a (key_gcd rest)
  end.
Definition gcd_tighten (f : factoid) : factoid :=
  let g := key_gcd f in if 1 <? g then map (fun c => c / g) f else f.

Fixpoint is_zero_key (f : factoid) : bool :=
  match f with
  | [] => true
  | [c] => true
  | a :: rest => (a =? 0) && is_zero_key rest
  end.
Definition is_false_factoid (f : factoid) : bool := is_zero_key f && (last f 0 <? 0).

(* ---- omega.Derivation ---- *)
Inductive deriv :=
| DAsm (f : factoid)
| DReal (i : nat) (d1 d2 : deriv)
| DGcd (d : deriv)
| DDirect (d1 d2 : deriv).

Fixpoint factoid_eqb (a b : factoid) : bool :=
  match a, b with
  | [], [] => true
  | x :: a', y :: b' => (x =? y) && factoid_eqb a' b'
  | _, _ => false
  end.

(* the factoid a derivation establishes from the input factoids *)
Fixpoint dfact (inputs : list factoid) (d : deriv) : option factoid :=
  match d with
  | DAsm f => if existsb (factoid_eqb f) inputs then Some f else None
  | DReal i d1 d2 =>
      match dfact inputs d1, dfact inputs d2 with
      | Some f1, Some f2 => if Nat.eqb (length f1) (length f2) then combine_real i f1 f2 else None
      | _, _ => None
      end
  | DGcd d1 =>
      match dfact inputs d1 with
      | Some f => Some (gcd_tighten f)
      | None => None
      end
  | DDirect d1 d2 =>
      match dfact inputs d1, dfact inputs d2 with
      | Some f1, Some f2 => if Nat.eqb (length f1) (length f2) then Some (zip_with Z.add f1 f2) else None
      | _, _ => None
      end
  end.

(* a derivation refutes the inputs when it establishes a false factoid *)
Definition deriv_check (inputs : list factoid) (d : deriv) : bool :=
  match dfact inputs d with
  | Some f => is_false_factoid f
  | None => false
  end.

(* ---- witnesses ---- *)
Definition amap := list (nat * Z).
Fixpoint aget (m : amap) (i : nat) : Z :=
  match m with
  | [] => 0
  | (j, v) :: m' => if Nat.eqb i j then v else aget m' i
  end.
Definition sat_ok (fs : list factoid) (m : amap) : bool := all_hold (aget m) fs.

(* ---- rational constraints and Farkas certificates (simplex) ---- *)
Open Scope Q_scope.
(* constraint: sum of coeff*x_i (rel) bound, rel: true = ">=", false = "<=" *)
Record qcon := mkQ { q_coeffs : list Q; q_ge : bool; q_bound : Q }.

Fixpoint qdot (x : nat -> Q) (i : nat) (cs : list Q) : Q :=
  match cs with
  | [] => 0
  | a :: rest => a * x i + qdot x (S i) rest
  end.
Definition qholds (x : nat -> Q) (c : qcon) : bool :=
  if q_ge c then Qle_bool (q_bound c) (qdot x 0 (q_coeffs c)) else Qle_bool (qdot x 0 (q_coeffs c)) (q_bound c).

Definition qmap := list (nat * Q).
Fixpoint qget (m : qmap) (i : nat) : Q :=
  match m with
  | [] => 0
  | (j, v) :: m' => if Nat.eqb i j then v else qget m' i
  end.
Definition qsat_ok (cs : list qcon) (m : qmap) : bool := forallb (qholds (qget m)) cs.
