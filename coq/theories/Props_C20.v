(* Props_C20.v — property theorems for C20. *)
From Coq Require Import List String Bool ZArith.
Import ListNotations.
From HolpyV Require Import Imp ImpSound.
Open Scope string_scope.

(* If every verification condition generated for {P} c {Q} (the list the model
   of Com.compute_wp / get_vcs returns, in the order shown to the user) holds in
   every state, then every terminating execution of c from a state satisfying P
   ends in a state satisfying Q.  For all programs over skip / assignment /
   sequence / conditional / annotated loop, all assertions, all states. *)
Theorem C20_vcg_sound : forall P c Q,
  (forall v, In v (vcg P c Q) -> forall s, holds s v) ->
  forall s s', holds s P -> exec c s s' -> holds s' Q.
Proof. exact vcg_sound. Qed.
Print Assumptions C20_vcg_sound.

(* Assignment rule: substitution in the postcondition is evaluation in the updated state. *)
Theorem C20_subst_lemma : forall s x e z q,
  eval (alook s) e = Some (VZ z) ->
  eval (alook s) (subst x e q) = eval (alook (aupd s x z)) q.
Proof. exact subst_sem. Qed.
Print Assumptions C20_subst_lemma.

(* The reference interpreter used as search oracle only produces big-step executions. *)
Theorem C20_interpreter_sound : forall fuel c s s', run fuel c s = Some s' -> exec c s s'.
Proof. exact run_sound. Qed.
Print Assumptions C20_interpreter_sound.

(* Non-vacuity: the countdown loop has valid VCs' premises satisfiable: its VC list is
   the one the implementation prints, and the loop runs. *)
Example C20_countdown_vcs :
  map show (vcg (EBin "<=" (ENum 0) (EVar "a"))
                (CWhile (EBin "<" (ENum 0) (EVar "a")) (EBin "<=" (ENum 0) (EVar "a"))
                        (CAssign "a" (EBin "-" (EVar "a") (ENum 1))))
                (EBin "==" (EVar "a") (ENum 0)))
  = ["0 <= a --> 0 <= a"; "0 <= a & 0 < a --> 0 <= a - 1"; "0 <= a & ~0 < a --> a == 0"].
Proof. vm_compute. reflexivity. Qed.

Example C20_countdown_runs :
  exists s', run 20 (CWhile (EBin "<" (ENum 0) (EVar "a")) (EBool true)
                            (CAssign "a" (EBin "-" (EVar "a") (ENum 1)))) [("a", 3%Z)] = Some s'
             /\ alook s' "a" = 0%Z.
Proof. eexists. split; vm_compute; reflexivity. Qed.
