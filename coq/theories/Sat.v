(* Sat.v — model of prover/sat.py (definitions only): is_solution, the CDCL loop of
   solve_cnf (unit_propagate, analyze_conflict, backtrack) with Python's
   set-iteration orders supplied as oracles, and an independent checker for the
   resolution trace that solve_cnf returns. *)
From Coq Require Import List String Bool Arith.
Import ListNotations.
Open Scope string_scope.
Open Scope list_scope.
Open Scope nat_scope.

Definition lit := (string * bool)%type.
Definition clause := list lit.
Definition cnf := list clause.

Definition lit_eqb (a b : lit) : bool := String.eqb (fst a) (fst b) && Bool.eqb (snd a) (snd b).
Definition mem_lit (l : lit) (c : clause) : bool := existsb (lit_eqb l) c.

Fixpoint dedup_lits (c : clause) : clause :=      (* list(dict.fromkeys(clause)): keeps first occurrences *)
  match c with
  | [] => []
  | l :: c' => l :: filter (fun m => negb (lit_eqb l m)) (dedup_lits c')
  end.

(* ---- semantics ---- *)
Definition lit_true (v : string -> bool) (l : lit) : bool := Bool.eqb (v (fst l)) (snd l).
Definition clause_true (v : string -> bool) (c : clause) : bool := existsb (lit_true v) c.
Definition is_model (v : string -> bool) (f : cnf) : bool := forallb (clause_true v) f.

(* sat.is_solution: assignment is a partial map *)
Fixpoint alookup {A} (k : string) (l : list (string * A)) : option A :=
  match l with
  | [] => None
  | (k', x) :: l' => if String.eqb k k' then Some x else alookup k l'
  end.

Definition is_solution (f : cnf) (a : list (string * bool)) : bool :=
  forallb (fun c => existsb (fun l => match alookup (fst l) a with
                                      | Some b => Bool.eqb b (snd l)
                                      | None => false
                                      end) c) f.

(* ---- solver state ---- *)
Record ainfo := mkA { a_val : bool; a_decide : bool; a_level : nat; a_reason : option nat }.
Definition assigns := list (string * ainfo).

Inductive cstatus :=
| CSat : cstatus
| CUn : list lit -> cstatus.

(* the inner "for lit in clause" loop of unit_propagate *)
Fixpoint clause_status (a : assigns) (c : clause) (un : list lit) : cstatus :=
  match c with
  | [] => CUn un
  | (n, v) :: c' =>
      match alookup n a with
      | Some i => if Bool.eqb v (a_val i) then CSat else clause_status a c' un
      | None => clause_status a c' (un ++ [(n, v)])
      end
  end.

Inductive scan_res :=
| SDone : bool -> scan_res
| SConflict : nat -> scan_res
| SUnitP : lit -> nat -> scan_res.

Fixpoint scan (f : cnf) (id : nat) (a : assigns) (hu : bool) : scan_res :=
  match f with
  | [] => SDone hu
  | c :: f' =>
      match clause_status a c [] with
      | CSat => scan f' (S id) a hu
      | CUn [] => SConflict id
      | CUn [l] => SUnitP l id
      | CUn _ => scan f' (S id) a true
      end
  end.

Inductive pres :=
| PSat : pres
| PNone : pres
| PConflict : nat -> pres
| PFuel : pres.

Fixpoint unit_propagate (fuel : nat) (f : cnf) (a : assigns) (level : nat) : pres * assigns :=
  match fuel with
  | 0 => (PFuel, a)
  | S fu =>
      match scan f 0 a false with
      | SDone false => (PSat, a)
      | SDone true => (PNone, a)
      | SConflict id => (PConflict id, a)
      | SUnitP (n, v) id => unit_propagate fu f (a ++ [(n, mkA v false level (Some id))]) level
      end
  end.

Definition remove_name (n : string) (c : clause) : clause := filter (fun l => negb (String.eqb (fst l) n)) c.

Definition same_set (a b : clause) : bool :=
  forallb (fun l => mem_lit l b) a && forallb (fun l => mem_lit l a) b.
Fixpoint nodup_lits (c : clause) : bool :=
  match c with [] => true | l :: c' => negb (mem_lit l c') && nodup_lits c' end.

(* first literal of the clause whose variable was assigned by propagation *)
Fixpoint find_prop_lit (a : assigns) (c : clause) : option (option (string * nat)) :=
  (* None = assertion failure; Some None = no such literal; Some (Some (name, reason)) *)
  match c with
  | [] => Some None
  | (n, v) :: c' =>
      match alookup n a with
      | None => None
      | Some i =>
          if Bool.eqb v (a_val i) then None
          else if a_decide i then find_prop_lit a c'
          else match a_reason i with
               | Some r => Some (Some (n, r))
               | None => None
               end
      end
  end.

(* analyze_conflict; [orc] supplies the order in which list(set(...)) returned
   the literals at each resolution, and is checked to be a duplicate-free
   enumeration of the same set *)
Fixpoint analyze (fuel : nat) (f : cnf) (a : assigns) (c : clause) (proof : list nat)
         (orc : list clause) : option (list nat * clause * list clause) :=
  match fuel with
  | 0 => None
  | S fu =>
      match find_prop_lit a c with
      | None => None
      | Some None => Some (proof, c, orc)
      | Some (Some (n, r)) =>
          match nth_error f r, orc with
          | Some d, o :: orc' =>
              let raw := remove_name n c ++ remove_name n d in
              if same_set raw o && nodup_lits o then analyze fu f a o (proof ++ [r]) orc'
              else None
          | _, _ => None
          end
      end
  end.

Fixpoint insert_sorted (x : nat) (l : list nat) : list nat :=
  match l with
  | [] => [x]
  | y :: l' => if x <=? y then x :: l else y :: insert_sorted x l'
  end.
Definition sort_nat (l : list nat) : list nat := fold_right insert_sorted [] l.

Definition lit_level (a : assigns) (l : lit) : option nat :=
  match alookup (fst l) a with Some i => Some (a_level i) | None => None end.

Fixpoint all_some {A} (l : list (option A)) : option (list A) :=
  match l with
  | [] => Some []
  | Some x :: l' => match all_some l' with Some r => Some (x :: r) | None => None end
  | None :: _ => None
  end.

(* second largest level among the literals of the learned clause (= level of
   sorted(clause)[-2]; independent of the order among equal levels) *)
Definition backtrack_level (a : assigns) (c : clause) : option nat :=
  match c with
  | [] => None
  | [_] => Some 0
  | _ => match all_some (map (lit_level a) c) with
         | Some ls => let s := rev (sort_nat ls) in Some (nth 1 s 0)
         | None => None
         end
  end.

Inductive sres :=
| RSat (assignment : list (string * bool))
| RUnsat (proofs : list (nat * list nat))
| RFuel
| RError.

Definition first_unassigned (vars : list string) (a : assigns) : option string :=
  find (fun v => match alookup v a with None => true | Some _ => false end) vars.

Fixpoint main_loop (fuel : nat) (f : cnf) (a : assigns) (level : nat) (proofs : list (nat * list nat))
         (vars : list string) (orc : list clause) (pr : pres) : sres * cnf :=
  match fuel with
  | 0 => (RFuel, f)
  | S fu =>
      match pr with
      | PFuel => (RFuel, f)
      | PSat => (RSat (map (fun p => (fst p, a_val (snd p))) a), f)
      | PNone =>
          let level' := S level in
          let a' := match first_unassigned vars a with
                    | Some v => a ++ [(v, mkA true true level' None)]
                    | None => a
                    end in
          let '(pr', a'') := unit_propagate (S (List.length vars)) f a' level' in
          main_loop fu f a'' level' proofs vars orc pr'
      | PConflict id =>
          match nth_error f id with
          | None => (RError, f)
          | Some c0 =>
              match analyze (100 + 4 * List.length a * List.length a) f a c0 [id] orc with
              | None => (RError, f)
              | Some (proof, c, orc') =>
                  let new_id := List.length f in
                  let f' := f ++ [c] in
                  let proofs' := proofs ++ [(new_id, proof)] in
                  match c with
                  | [] => (RUnsat proofs', f')
                  | _ =>
                      match backtrack_level a c with
                      | None => (RError, f')
                      | Some bl =>
                          let a' := filter (fun p => a_level (snd p) <=? bl) a in
                          let '(pr', a'') := unit_propagate (S (List.length vars)) f' a' bl in
                          main_loop fu f' a'' bl proofs' vars orc' pr'
                      end
                  end
              end
          end
      end
  end.

(* [fx_dedup] = the repair: literals are deduplicated on entry *)
Definition solve_cnf (fx_dedup : bool) (fuel : nat) (f : cnf) (vars : list string) (orc : list clause)
  : sres * cnf :=
  let f0 := if fx_dedup then map dedup_lits f else f in
  let '(pr, a) := unit_propagate (S (List.length vars)) f0 [] 0 in
  main_loop fuel f0 a 0 [] vars orc pr.

(* ------------------------------------------------------------------ *)
(* Independent checker of the returned resolution trace                *)

Definition find_pivot (c d : clause) : option string :=
  match find (fun l => mem_lit (fst l, negb (snd l)) d
                       && negb (mem_lit (fst l, negb (snd l)) c)
                       && negb (mem_lit l d)) c with
  | Some l => Some (fst l)
  | None => None
  end.

Definition resolve_chk (c d : clause) : option clause :=
  match find_pivot c d with
  | Some x => Some (dedup_lits (remove_name x c ++ remove_name x d))
  | None => None
  end.

Fixpoint chain (db : cnf) (c : clause) (ids : list nat) : option clause :=
  match ids with
  | [] => Some c
  | i :: rest =>
      match nth_error db i with
      | Some d => match resolve_chk c d with
                  | Some c' => chain db c' rest
                  | None => None
                  end
      | None => None
      end
  end.

(* every entry must define the next clause id; the last derived clause must be empty *)
Fixpoint check_trace_from (db : cnf) (proofs : list (nat * list nat)) (last : option clause) : bool :=
  match proofs with
  | [] => match last with Some [] => true | _ => false end
  | (id, ids) :: rest =>
      if negb (Nat.eqb id (List.length db)) then false
      else match ids with
           | [] => false
           | i0 :: ids' =>
               match nth_error db i0 with
               | Some c0 => match chain db c0 ids' with
                            | Some c => check_trace_from (db ++ [c]) rest (Some c)
                            | None => false
                            end
               | None => false
               end
           end
  end.

Definition check_trace (f : cnf) (proofs : list (nat * list nat)) : bool :=
  check_trace_from f proofs None.

(* brute force over the variables occurring in the formula (cross-check only) *)
Fixpoint all_vals (vars : list string) : list (list (string * bool)) :=
  match vars with
  | [] => [[]]
  | x :: vs => flat_map (fun r => [(x, true) :: r; (x, false) :: r]) (all_vals vs)
  end.

Definition val_of (a : list (string * bool)) (x : string) : bool :=
  match alookup x a with Some b => b | None => false end.

Fixpoint vars_of (f : cnf) : list string :=
  match f with
  | [] => []
  | c :: f' => fold_right (fun l acc => if existsb (String.eqb (fst l)) acc then acc else fst l :: acc)
                          (vars_of f') c
  end.

Definition brute_sat (f : cnf) : bool := existsb (fun a => is_model (val_of a) f) (all_vals (vars_of f)).
