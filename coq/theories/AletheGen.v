(* AletheGen.v — the small library into which harness/c18_translate.py translates the eval
   methods of the straight-line veriT rules (smt/veriT/verit_macro.py) on every run, and the
   tactic that proves each translated rule sound.  A translated eval is a Gallina term built
   from these combinators only: Python expressions that may raise become options (None = an
   exception, i.e. the step is refused), statements become nested conditionals.
   The views below read a propositional formula the way the Term methods read a HOL term
   (neg / conj / disj / implies / equals on bool / xor / IF applied to their arguments; what a
   method finds inside an opaque atom is not modelled: it yields None). *)
From Coq Require Import List String Bool Arith Lia.
Import ListNotations.
From HolpyV Require Import TruthTable Alethe AletheSound.
Open Scope list_scope.

Definition obind {A B} (a : option A) (f : A -> option B) : option B :=
  match a with Some x => f x | None => None end.
Definition omap {A B} (f : A -> B) (a : option A) : option B :=
  match a with Some x => Some (f x) | None => None end.
Definition omap2 {A B C} (f : A -> B -> C) (a : option A) (b : option B) : option C :=
  match a with Some x => match b with Some y => Some (f x y) | None => None end | None => None end.

(* conditions: option bool, `and` / `or` evaluate their right operand only when needed *)
Definition oand (a b : option bool) : option bool :=
  match a with Some true => b | Some false => Some false | None => None end.
Definition oor (a b : option bool) : option bool :=
  match a with Some true => Some true | Some false => b | None => None end.
Definition onot (a : option bool) : option bool := omap negb a.
Definition oeq (a b : option pf) : option bool := omap2 pf_eqb a b.
Definition one (a b : option pf) : option bool := onot (oeq a b).
Definition ocond {A} (c : option bool) (a b : option A) : option A :=
  match c with Some true => a | Some false => b | None => None end.

(* Term.arg, Term.arg1, Term.args, Term.lhs, Term.rhs *)
Definition t_arg (t : pf) : option pf :=
  match t with
  | PNot a => Some a
  | PAnd _ b | POr _ b | PImp _ b | PIff _ b | PXor _ b => Some b
  | PIte _ _ b => Some b
  | _ => None
  end.
Definition t_arg1 (t : pf) : option pf :=
  match t with
  | PAnd a _ | POr a _ | PImp a _ | PIff a _ | PXor a _ => Some a
  | PIte _ a _ => Some a
  | _ => None
  end.
Definition t_args (t : pf) : option (list pf) :=
  match t with
  | PNot a => Some [a]
  | PAnd a b | POr a b | PImp a b | PIff a b | PXor a b => Some [a; b]
  | PIte c a b => Some [c; a; b]
  | PTrue | PFalse => Some []
  | PAtom _ => None
  end.
Definition t_lhs (t : pf) : option pf := match t with PIff a _ => Some a | _ => None end.
Definition t_rhs (t : pf) : option pf := match t with PIff _ b => Some b | _ => None end.

Definition is_not (t : pf) : bool := match t with PNot _ => true | _ => false end.
Definition is_conj (t : pf) : bool := match t with PAnd _ _ => true | _ => false end.
Definition is_disj (t : pf) : bool := match t with POr _ _ => true | _ => false end.
Definition is_implies (t : pf) : bool := match t with PImp _ _ => true | _ => false end.
Definition is_equals (t : pf) : bool := match t with PIff _ _ => true | _ => false end.
Definition is_xor (t : pf) : bool := match t with PXor _ _ => true | _ => false end.
Definition is_if (t : pf) : bool := match t with PIte _ _ _ => true | _ => false end.

Definition nth_pf (l : list pf) (n : nat) : option pf := nth_error l n.
Definition last_pf (l : list pf) : option pf := match l with [] => None | x :: _ => Some (List.last l x) end.
Definition len_is (l : list pf) (n : nat) : option bool := Some (Nat.eqb (List.length l) n).

(* ---- the soundness tactic --------------------------------------------------------------- *)

Lemma nth_pf_in : forall l n p, nth_pf l n = Some p -> In p l.
Proof. intros l n p E. eapply nth_error_In; eauto. Qed.

#[global] Arguments pf_eqb : simpl never.
#[global] Arguments mk_or : simpl never.

Lemma pf_not_neq : forall x, PNot x <> x.
Proof. induction x; intros E; try discriminate E. injection E as E. auto. Qed.

Fixpoint pf_size (f : pf) : nat :=
  match f with
  | PAtom _ | PTrue | PFalse => 1
  | PNot a => S (pf_size a)
  | PAnd a b | POr a b | PImp a b | PIff a b | PXor a b => S (pf_size a + pf_size b)
  | PIte c a b => S (pf_size c + pf_size a + pf_size b)
  end.

(* an equation between a formula and a proper part of it (occurs check) *)
Ltac gen_absurd :=
  match goal with
  | Hb : PNot ?x = ?x |- _ => exfalso; exact (pf_not_neq x Hb)
  | Hb : ?x = PNot ?x |- _ => exfalso; exact (pf_not_neq x (eq_sym Hb))
  | Hb : @eq pf ?x ?t |- _ => is_var x; exfalso; apply (f_equal pf_size) in Hb; cbn [pf_size] in Hb; lia
  | Hb : @eq pf ?t ?x |- _ => is_var x; exfalso; apply (f_equal pf_size) in Hb; cbn [pf_size] in Hb; lia
  end.

Ltac gen_red H :=
  cbv beta iota delta [obind omap omap2 oand oor onot oeq one ocond t_arg t_arg1 t_args t_lhs t_rhs
                       is_not is_conj is_disj is_implies is_equals is_xor is_if nth_pf last_pf len_is] in H;
  cbn [nth_error List.length Nat.eqb negb] in H.

Ltac gen_crack H :=
  repeat (gen_red H;
          first
            [ match type of H with None = Some _ => discriminate H end
            | match type of H with context [match ?x with _ => _ end] => is_var x; destruct x end
            | match type of H with context [List.length ?l] => is_var l; destruct l end
            | match type of H with context [pf_eqb ?a ?b] => destruct (pf_eqb a b) eqn:? end ]);
  gen_red H.

Ltac gen_eqs :=
  repeat match goal with
         | Hb : pf_eqb _ _ = true |- _ => apply pf_eqb_eq in Hb
         | Hb : negb _ = true |- _ => apply negb_true_iff in Hb
         | Hb : negb _ = false |- _ => apply negb_false_iff in Hb
         end;
  repeat match goal with
         | Hb : PNot _ = PNot _ |- _ => injection Hb as Hb
         | Hb : POr _ _ = POr _ _ |- _ => injection Hb as ? ?
         | Hb : Some _ = Some _ |- _ => injection Hb as Hb
         end.

Ltac gen_taut v :=
  rewrite ?(holds_mk_or v); cbn [existsb pholds];
  repeat match goal with
         | |- context [pholds v ?q] => is_var q; destruct (pholds v q)
         | |- context [v ?n] => is_var n; destruct (v n)
         | |- context [existsb (pholds v) ?l] => is_var l; destruct (existsb (pholds v) l)
         end; cbn; congruence.

(* a translated rule: accepted clause holds wherever the premises hold *)
Ltac gen_sound f :=
  let v := fresh "v" in let args := fresh "args" in let prems := fresh "prems" in
  let c := fresh "c" in let E := fresh "E" in let Hp := fresh "Hp" in
  intros v args prems c E Hp; unfold f in E;
  gen_crack E; try discriminate E;
  gen_eqs; subst; repeat (progress (gen_eqs; subst)); try discriminate; try gen_absurd;
  repeat match goal with
         | Hq : forall p, In p (?p0 :: _) -> pholds v p = true |- _ =>
             let Hprem := fresh "Hprem" in pose proof (Hq p0 (or_introl eq_refl)) as Hprem; revert Hprem; clear Hq
         | Hq : forall p, In p [] -> _ |- _ => clear Hq
         end;
  repeat match goal with
         | Hb : _ = mk_or _ |- _ => rewrite <- Hb; clear Hb
         | Hb : mk_or _ = _ |- _ => rewrite Hb; clear Hb
         end;
  try (gen_taut v).

(* ---- the regenerated definition of a rule equals the hand-written model ------------------- *)

Ltac eq_crack :=
  repeat (cbv beta iota delta [obind omap omap2 oand oor onot oeq one ocond t_arg t_arg1 t_args t_lhs t_rhs
                       is_not is_conj is_disj is_implies is_equals is_xor is_if nth_pf last_pf len_is];
          cbn [nth_error List.length Nat.eqb negb andb orb];
          first
            [ reflexivity
            | match goal with |- context [match ?x with _ => _ end] => is_var x; destruct x end
            | match goal with |- context [List.length ?l] => is_var l; destruct l end
            | match goal with |- context [pf_eqb ?a ?b] => destruct (pf_eqb a b) eqn:? end ]).

(* what is left are cases in which the two definitions made the same comparison in two forms
   (t = ~false against the operand of t = false): the recorded outcomes contradict each other *)
Ltac eq_finish :=
  try reflexivity; exfalso;
  repeat match goal with
         | Hb : pf_eqb ?a ?b = false |- _ =>
             assert (a <> b) by (let Hc := fresh in intro Hc; apply (proj2 (pf_eqb_eq a b)) in Hc; congruence); clear Hb
         end;
  repeat match goal with
         | Hb : pf_eqb _ _ = true |- _ => apply pf_eqb_eq in Hb
         end;
  congruence.
