(* Nnf.v — model of data/proplogic.py nnf_conv (negation normal form) on the propositional
   skeleton of a term: atoms are the sub-terms that nnf_conv leaves alone (anything that is not
   a negation, conjunction, disjunction, boolean equality, true or false — implications and
   quantified formulas included).  Definitions only. *)
From Coq Require Import List Bool.
Import ListNotations.
From HolpyV Require Import Kernel.

Inductive form : Type :=
  | FAtom (t : tm)
  | FTrue
  | FFalse
  | FNot (f : form)
  | FAnd (f g : form)
  | FOr (f g : form)
  | FIff (f g : form).

(* nnfb false f = nnf_conv f ; nnfb true f = nnf_conv (~f):
     ~true = false, ~false = true                      (not_true, not_false; no further descent)
     ~~a = nnf a                                        (double_neg, then self)
     ~(a & b) = nnf ~a | nnf ~b, ~(a | b) = nnf ~a & nnf ~b   (de_morgan_thm1/2, arg1_conv self, arg_conv self)
     ~(a <--> b) = nnf ~a <--> nnf b                    (neg_iff, binop_conv self)
     a & b, a | b, a <--> b: both sides                 (arg1_conv self, arg_conv self) *)
Fixpoint nnfb (neg : bool) (f : form) : form :=
  match f with
  | FAtom t => if neg then FNot (FAtom t) else FAtom t
  | FTrue => if neg then FFalse else FTrue
  | FFalse => if neg then FTrue else FFalse
  | FNot a => nnfb (negb neg) a
  | FAnd a b => if neg then FOr (nnfb true a) (nnfb true b) else FAnd (nnfb false a) (nnfb false b)
  | FOr a b => if neg then FAnd (nnfb true a) (nnfb true b) else FOr (nnfb false a) (nnfb false b)
  | FIff a b => if neg then FIff (nnfb true a) (nnfb false b) else FIff (nnfb false a) (nnfb false b)
  end.

Definition nnf (f : form) : form := nnfb false f.

(* negation normal form: a negation stands in front of an atom only *)
Fixpoint is_nnf (f : form) : bool :=
  match f with
  | FAtom _ | FTrue | FFalse => true
  | FNot (FAtom _) => true
  | FNot _ => false
  | FAnd a b | FOr a b | FIff a b => is_nnf a && is_nnf b
  end.

(* meaning under a valuation of the atoms *)
Fixpoint feval (v : tm -> bool) (f : form) : bool :=
  match f with
  | FAtom t => v t
  | FTrue => true
  | FFalse => false
  | FNot a => negb (feval v a)
  | FAnd a b => feval v a && feval v b
  | FOr a b => feval v a || feval v b
  | FIff a b => Bool.eqb (feval v a) (feval v b)
  end.

Fixpoint form_eqb (f g : form) : bool :=
  match f, g with
  | FAtom s, FAtom t => tm_eqb s t
  | FTrue, FTrue | FFalse, FFalse => true
  | FNot a, FNot b => form_eqb a b
  | FAnd a b, FAnd c d | FOr a b, FOr c d | FIff a b, FIff c d => form_eqb a c && form_eqb b d
  | _, _ => false
  end.

(* correspondence case: 1 = the implementation's result is the model's; 0 = differs *)
Definition case_nnf (f expected : form) : nat := if form_eqb (nnf f) expected then 1 else 0.
