(* SemLemmas.v — lemmas about the finite-table semantics. *)
From Coq Require Import List String Bool Arith Lia.
Import ListNotations.
From HolpyV Require Import Kernel KernelLemmas Sem.
Open Scope string_scope.
Open Scope list_scope.
Open Scope nat_scope.

Section VInd.
Variable P : V -> Prop.
Hypothesis HB : forall b, P (VB b).
Hypothesis HA : forall k, P (VA k).
Hypothesis HO : forall k, P (VO k).
Hypothesis HF : forall tbl, Forall P tbl -> P (VF tbl).
Fixpoint V_ind' (v : V) : P v :=
  match v with
  | VB b => HB b
  | VA k => HA k
  | VO k => HO k
  | VF tbl => HF tbl ((fix go (l : list V) : Forall P l :=
                         match l with
                         | [] => Forall_nil P
                         | x :: l' => Forall_cons x (V_ind' x) (go l')
                         end) tbl)
  end.
End VInd.

Lemma V_eqb_eq : forall x y, V_eqb x y = true <-> x = y.
Proof.
  induction x as [b|k|k|tbl IH] using V_ind'; destruct y as [c|j|j|tbl2]; cbn [V_eqb];
    try (split; [discriminate | discriminate]).
  - rewrite Bool.eqb_true_iff. split; congruence.
  - rewrite Nat.eqb_eq. split; congruence.
  - rewrite Nat.eqb_eq. split; congruence.
  - assert (H : forall l2,
      (fix go (l1 l2 : list V) : bool :=
         match l1, l2 with
         | [], [] => true
         | a :: l1', b :: l2' => V_eqb a b && go l1' l2'
         | _, _ => false
         end) tbl l2 = true <-> tbl = l2).
    { induction IH as [|x l Hx Hl IHl]; intros [|y ys]; try (split; [discriminate|discriminate]).
      - split; reflexivity.
      - rewrite andb_true_iff, Hx, IHl. split; [intros [-> ->]; reflexivity | intros E; inversion E; auto]. }
    rewrite H. split; congruence.
Qed.

Lemma V_eqb_refl : forall x, V_eqb x x = true.
Proof. intro. apply V_eqb_eq. reflexivity. Qed.

Lemma tables_spec : forall n cod l,
  In l (tables n cod) <-> List.length l = n /\ Forall (fun v => In v cod) l.
Proof.
  induction n as [|n IH]; intros cod l; cbn [tables].
  - split.
    + intros [<- | []]. split; [reflexivity | constructor].
    + intros [Hl _]. destruct l; [left; reflexivity | discriminate].
  - rewrite in_flat_map. split.
    + intros [v [Hv Hin]]. apply in_map_iff in Hin. destruct Hin as [l' [<- Hl']].
      apply IH in Hl'. destruct Hl' as [Hlen Hall]. split; [cbn; lia | constructor; assumption].
    + intros [Hlen Hall]. destruct l as [|v l']; [discriminate|]. inversion Hall; subst.
      exists v. split; [assumption|]. apply in_map. apply IH. split; [cbn in Hlen; lia | assumption].
Qed.

Lemma tables_nonempty : forall n cod, cod <> [] -> tables n cod <> [].
Proof.
  intros n cod Hc. destruct cod as [|c cod']; [congruence|].
  assert (In (repeat c n) (tables n (c :: cod'))).
  { apply tables_spec. split; [apply repeat_length|]. apply Forall_forall. intros x Hx.
    apply repeat_spec in Hx. subst. left. reflexivity. }
  intro E. rewrite E in H. destruct H.
Qed.

Section Model.
Variable DC : string -> list sty -> nat.
Notation dom := (dom DC).

Lemma dom_nonempty : forall s, dom s <> [].
Proof.
  induction s as [|k|a IHa b IHb|n args]; cbn [Sem.dom].
  - discriminate.
  - cbn. discriminate.
  - intro E. apply map_eq_nil in E. revert E. apply tables_nonempty. exact IHb.
  - cbn. discriminate.
Qed.

Lemma index_in : forall v l, In v l -> index v l < List.length l /\ nth (index v l) l (VB false) = v.
Proof.
  induction l as [|x l IH]; intros Hin; [destruct Hin|]. cbn [index].
  destruct (V_eqb v x) eqn:E.
  - apply V_eqb_eq in E. subst. cbn. split; [lia | reflexivity].
  - destruct Hin as [-> | Hin]; [rewrite V_eqb_refl in E; discriminate|].
    destruct (IH Hin) as [H1 H2]. cbn. split; [lia | exact H2].
Qed.

(* looking a tabulated function up at an element of its domain *)
Lemma app_tabulate : forall A (f : V -> V) v,
  In v (dom A) -> app DC (VF (map f (dom A))) v A = f v.
Proof.
  intros A f v Hin. unfold app. destruct (index_in v _ Hin) as [Hlt Hnth].
  rewrite (nth_indep _ (VB false) (f (VB false))) by (rewrite map_length; exact Hlt).
  rewrite map_nth. rewrite Hnth. reflexivity.
Qed.

Lemma in_dom_SF : forall a b v, In v (dom (SF a b)) <->
  exists tbl, v = VF tbl /\ List.length tbl = List.length (dom a) /\ Forall (fun x => In x (dom b)) tbl.
Proof.
  intros a b v. cbn [Sem.dom]. rewrite in_map_iff. split.
  - intros [tbl [<- Hin]]. apply tables_spec in Hin. exists tbl. tauto.
  - intros [tbl [-> H]]. exists tbl. split; [reflexivity | apply tables_spec; exact H].
Qed.

Lemma app_in_dom : forall a b f x, In f (dom (SF a b)) -> In x (dom a) -> In (app DC f x a) (dom b).
Proof.
  intros a b f x Hf Hx. apply in_dom_SF in Hf. destruct Hf as [tbl [-> [Hlen Hall]]].
  unfold app. destruct (index_in x _ Hx) as [Hlt _].
  rewrite Forall_forall in Hall. apply Hall. apply nth_In. lia.
Qed.

Lemma tab1_in_dom : forall a b f, (forall x, In x (dom a) -> In (f x) (dom b)) -> In (tab1 DC a f) (dom (SF a b)).
Proof.
  intros a b f H. apply in_dom_SF. exists (map f (dom a)). split; [reflexivity|]. split; [apply map_length|].
  apply Forall_forall. intros y Hy. apply in_map_iff in Hy. destruct Hy as [x [<- Hx]]. auto.
Qed.

Variable thT thS : string -> sty.
Variable IC : string -> sty -> V.
Variable sigV sigS : string -> ty -> V.
Notation tysem := (tysem thT thS).
Notation eval := (eval DC thT thS IC sigV sigS).

(* alpha-equivalent terms have the same denotation: eval never looks at a bound name *)
Lemma eval_alpha : forall s t env, tm_eqb s t = true -> eval env s = eval env t.
Proof.
  induction s as [n T|n T|n T|f IHf a IHa|x T b IHb|k]; destruct t as [m U|m U|m U|g c|y U c|j];
    intros env H; cbn [tm_eqb] in H; try discriminate.
  - apply andb_true_iff in H. destruct H as [H1 H2]. apply String.eqb_eq in H1. apply ty_eqb_eq in H2. subst. reflexivity.
  - apply andb_true_iff in H. destruct H as [H1 H2]. apply String.eqb_eq in H1. apply ty_eqb_eq in H2. subst. reflexivity.
  - apply andb_true_iff in H. destruct H as [H1 H2]. apply String.eqb_eq in H1. apply ty_eqb_eq in H2. subst. reflexivity.
  - apply andb_true_iff in H. destruct H as [H1 H2]. cbn [Sem.eval]. rewrite (IHf g env H1), (IHa c env H2). reflexivity.
  - apply andb_true_iff in H. destruct H as [H1 H2]. apply ty_eqb_eq in H1. subst U. cbn [Sem.eval].
    assert (E : map (fun v => eval ((tysem T, v) :: env) b) (dom (tysem T)) =
                map (fun v => eval ((tysem T, v) :: env) c) (dom (tysem T))).
    { apply map_ext. intro v. apply IHb. exact H2. }
    rewrite E. reflexivity.
  - apply Nat.eqb_eq in H. subst. reflexivity.
Qed.

(* de Bruijn lemmas: unconditional, because eval is total *)
Lemma incr_sem : forall t r1 ins r2,
  eval (r1 ++ ins ++ r2) (incr_boundvars_rec t (List.length r1) (List.length ins)) = eval (r1 ++ r2) t.
Proof.
  induction t as [n T|n T|n T|f IHf a IHa|x T b IHb|k]; intros r1 ins r2; cbn [incr_boundvars_rec Sem.eval]; try reflexivity.
  - rewrite IHf, IHa. reflexivity.
  - assert (E : map (fun v => eval ((tysem T, v) :: r1 ++ ins ++ r2) (incr_boundvars_rec b (S (List.length r1)) (List.length ins))) (dom (tysem T))
             = map (fun v => eval ((tysem T, v) :: r1 ++ r2) b) (dom (tysem T))).
    { apply map_ext. intro v. apply (IHb ((tysem T, v) :: r1)). }
    rewrite E. reflexivity.
  - destruct (List.length r1 <=? k) eqn:E; cbn [Sem.eval].
    + apply Nat.leb_le in E. rewrite !app_nth2 by (rewrite ?app_length; lia). f_equal. lia.
    + apply Nat.leb_gt in E. rewrite !app_nth1 by lia. reflexivity.
Qed.

Lemma is_open_incr0 : forall t lev, is_open_rec t lev = false -> forall inc, incr_boundvars_rec t lev inc = t.
Proof.
  induction t as [n T|n T|n T|f IHf a IHa|x T b IHb|k]; intros lev H inc; cbn [incr_boundvars_rec is_open_rec] in *; try reflexivity.
  - apply orb_false_iff in H. destruct H. rewrite IHf, IHa by assumption. reflexivity.
  - rewrite IHb by assumption. reflexivity.
  - rewrite H. reflexivity.
Qed.

Lemma subst_bound_sem : forall s r1 r2 t,
  eval (r1 ++ r2) (subst_bound_rec s (List.length r1) t) = eval (r1 ++ eval r2 t :: r2) s.
Proof.
  induction s as [n T|n T|n T|f IHf a IHa|x T b IHb|k]; intros r1 r2 t; cbn [subst_bound_rec Sem.eval]; try reflexivity.
  - rewrite IHf, IHa. reflexivity.
  - assert (E : map (fun v => eval ((tysem T, v) :: r1 ++ r2) (subst_bound_rec b (S (List.length r1)) t)) (dom (tysem T))
             = map (fun v => eval ((tysem T, v) :: r1 ++ eval r2 t :: r2) b) (dom (tysem T))).
    { apply map_ext. intro v. apply (IHb ((tysem T, v) :: r1)). }
    rewrite E. reflexivity.
  - destruct (Nat.eqb k (List.length r1)) eqn:E.
    + apply Nat.eqb_eq in E. subst k. rewrite app_nth2 by lia. rewrite Nat.sub_diag. cbn [nth].
      destruct (is_open t) eqn:Ho.
      * unfold incr_boundvars. apply (incr_sem t [] r1 r2).
      * unfold is_open in Ho. pose proof (incr_sem t [] r1 r2) as Hi. cbn [app List.length] in Hi.
        rewrite (is_open_incr0 t 0 Ho) in Hi. exact Hi.
    + apply Nat.eqb_neq in E. destruct (List.length r1 <? k) eqn:E2; cbn [Sem.eval].
      * apply Nat.ltb_lt in E2. rewrite !app_nth2 by lia.
        replace (k - List.length r1) with (S (k - 1 - List.length r1)) by lia. reflexivity.
      * apply Nat.ltb_ge in E2. rewrite !app_nth1 by lia. reflexivity.
Qed.

(* typing: a checked term evaluates into the domain of its type *)
Definition ic_ok (ic : string -> sty -> V) : Prop := forall n s, In (ic n s) (dom s).
Definition val_ok (sig : string -> ty -> V) : Prop := forall n T, In (sig n T) (dom (tysem T)).

Definition env_ok (env : list (sty * V)) (bd : list ty) : Prop :=
  Forall2 (fun e B => fst e = tysem B /\ In (snd e) (dom (fst e))) env bd.

Hypothesis IC_ok : ic_ok IC.
Hypothesis sigV_ok : val_ok sigV.
Hypothesis sigS_ok : val_ok sigS.

Lemma tysem_fun : forall n d r rest, String.eqb n "fun" = true -> tysem (TConst n (d :: r :: rest)) = SF (tysem d) (tysem r).
Proof. intros n d r rest H. apply String.eqb_eq in H. subst. reflexivity. Qed.

Lemma eval_typed : forall t bd T env,
  checked_get_type_rec t bd = Some T -> env_ok env bd ->
  fst (eval env t) = tysem T /\ In (snd (eval env t)) (dom (tysem T)).
Proof.
  induction t as [n U|n U|n U|f IHf a IHa|x U b IHb|k]; intros bd T env H Henv; cbn [checked_get_type_rec] in H.
  - inversion H; subst. cbn. split; [reflexivity | apply sigS_ok].
  - inversion H; subst. cbn. split; [reflexivity | apply sigV_ok].
  - inversion H; subst. cbn. split; [reflexivity | apply IC_ok].
  - destruct (checked_get_type_rec f bd) as [Tf|] eqn:Ef; [|discriminate].
    destruct (checked_get_type_rec a bd) as [Ta|] eqn:Ea; [|discriminate].
    destruct (is_fun_name Tf) eqn:Efun; [|discriminate].
    destruct Tf as [m|m|m [|d [|r rest]]]; try discriminate.
    + destruct (ty_eqb d Ta); discriminate.
    + destruct (ty_eqb d Ta) eqn:Ed; [|discriminate]. inversion H; subst T. apply ty_eqb_eq in Ed. subst Ta.
      cbn [is_fun_name] in Efun.
      destruct (IHf _ _ env Ef Henv) as [Hf1 Hf2]. destruct (IHa _ _ env Ea Henv) as [Ha1 Ha2].
      rewrite (tysem_fun _ _ _ _ Efun) in Hf1, Hf2.
      cbn [Sem.eval]. destruct (eval env f) as [sf vf]. destruct (eval env a) as [sa va]. cbn [fst snd] in *. subst sf.
      cbn [fst snd]. split; [reflexivity|]. eapply app_in_dom; eauto.
  - destruct (checked_get_type_rec b (U :: bd)) as [Tb|] eqn:Eb; [|discriminate]. inversion H; subst T.
    assert (Hall : forall v, In v (dom (tysem U)) ->
              fst (eval ((tysem U, v) :: env) b) = tysem Tb /\ In (snd (eval ((tysem U, v) :: env) b)) (dom (tysem Tb))).
    { intros v Hv. apply (IHb _ _ _ Eb). constructor; [split; [reflexivity | exact Hv] | exact Henv]. }
    cbn [Sem.eval]. change (tysem (TFun U Tb)) with (SF (tysem U) (tysem Tb)).
    destruct (dom (tysem U)) as [|v0 vs] eqn:Ed; [exfalso; eapply dom_nonempty; eauto|].
    cbn [map fst snd]. destruct (eval ((tysem U, v0) :: env) b) as [r0 w0] eqn:E0.
    assert (H0 := Hall v0 (or_introl eq_refl)). rewrite E0 in H0. cbn [fst snd] in H0. destruct H0 as [-> H0].
    split; [reflexivity|].
    apply in_dom_SF. eexists. split; [reflexivity|]. rewrite Ed. split; [cbn; rewrite !map_length; reflexivity|].
    constructor; [exact H0|]. apply Forall_forall. intros y Hy. apply in_map_iff in Hy. destruct Hy as [p [<- Hp]].
    apply in_map_iff in Hp. destruct Hp as [v [<- Hv]]. apply Hall. right. exact Hv.
  - cbn [Sem.eval]. revert k H. induction Henv as [|e B env bd He Hrest IH]; intros k H.
    + destruct k; discriminate.
    + destruct k as [|k]; cbn in *.
      * inversion H; subst. destruct He as [He1 He2]. rewrite <- He1. split; [reflexivity | exact He2].
      * apply IH. exact H.
Qed.

End Model.

(* ------------------------------------------------------------------ *)
(* type instantiation: evaluating t[sigma] = evaluating t under the composed
   assignment of schematic type variables *)
Definition thS_subst (thT thS : string -> sty) (s : tyinst) : string -> sty :=
  fun n => match lookup n s with Some U => tysem thT thS U | None => thS n end.

Lemma tysem_subst : forall thT thS s T,
  tysem thT thS (ty_subst s T) = tysem thT (thS_subst thT thS s) T.
Proof.
  intros thT thS s. induction T as [n|n|n args IH] using ty_ind'; cbn [ty_subst].
  - unfold thS_subst. cbn [Sem.tysem]. destruct (lookup n s); reflexivity.
  - reflexivity.
  - cbn [Sem.tysem]. rewrite map_map.
    assert (E : map (fun x => tysem thT thS (ty_subst s x)) args = map (tysem thT (thS_subst thT thS s)) args).
    { induction IH as [|x l Hx Hl IHl]; [reflexivity|]. cbn [map]. rewrite Hx, IHl. reflexivity. }
    rewrite E. reflexivity.
Qed.

Lemma eval_subst_type : forall DC thT thS IC sigV sigS s t env,
  eval DC thT thS IC sigV sigS env (tm_subst_type s t) =
  eval DC thT (thS_subst thT thS s) IC (fun n T => sigV n (ty_subst s T)) (fun n T => sigS n (ty_subst s T)) env t.
Proof.
  intros DC thT thS IC sigV sigS s. induction t as [n T|n T|n T|f IHf a IHa|x T b IHb|k]; intros env; cbn [tm_subst_type Sem.eval].
  - rewrite tysem_subst. reflexivity.
  - rewrite tysem_subst. reflexivity.
  - rewrite tysem_subst. reflexivity.
  - rewrite IHf, IHa. reflexivity.
  - rewrite tysem_subst.
    assert (E : forall l, map (fun v => eval DC thT thS IC sigV sigS ((tysem thT (thS_subst thT thS s) T, v) :: env) (tm_subst_type s b)) l =
                map (fun v => eval DC thT (thS_subst thT thS s) IC (fun n T0 => sigV n (ty_subst s T0)) (fun n T0 => sigS n (ty_subst s T0))
                             ((tysem thT (thS_subst thT thS s) T, v) :: env) b) l).
    { intros l. apply map_ext. intro v. apply IHb. }
    rewrite E. reflexivity.
  - reflexivity.
Qed.

(* ------------------------------------------------------------------ *)
(* updating the valuation of one variable; abstraction over a variable *)
Definition upd (sig : string -> ty -> V) (n : string) (T : ty) (v : V) : string -> ty -> V :=
  fun m U => if String.eqb n m && ty_eqb T U then v else sig m U.

Lemma checked_closed : forall t bd T, checked_get_type_rec t bd = Some T -> is_open_rec t (List.length bd) = false.
Proof.
  induction t as [n T0|n T0|n T0|f IHf a IHa|x U b IHb|k]; intros bd T H; cbn [is_open_rec]; try reflexivity.
  - cbn [checked_get_type_rec] in H.
    destruct (checked_get_type_rec f bd) as [Tf|] eqn:Ef; [|discriminate].
    destruct (checked_get_type_rec a bd) as [Ta|] eqn:Ea; [|destruct (is_fun_name Tf); [destruct Tf as [| |? [|? [|? ?]]]|]; discriminate].
    rewrite (IHf _ _ Ef), (IHa _ _ Ea). reflexivity.
  - cbn [checked_get_type_rec] in H. destruct (checked_get_type_rec b (U :: bd)) as [Tb|] eqn:Eb; [|discriminate].
    apply (IHb _ _ Eb).
  - cbn [checked_get_type_rec] in H. apply Nat.leb_gt. apply nth_error_Some. rewrite H. discriminate.
Qed.

Section Upd.
Variable DC : string -> list sty -> nat.
Variable thT thS : string -> sty.
Variable IC : string -> sty -> V.
Notation tysem := (tysem thT thS).
Notation eval := (eval DC thT thS IC).

(* a variable that does not occur does not matter *)
Lemma eval_upd_var : forall n T v sigV sigS s env,
  occurs_var true s (Var n T) = false -> eval (upd sigV n T v) sigS env s = eval sigV sigS env s.
Proof.
  intros n T v sigV sigS. induction s as [m U|m U|m U|f IHf a IHa|x U b IHb|k]; intros env H; cbn [Sem.eval occurs_var] in *; try reflexivity.
  - cbn [tm_eqb] in H. unfold upd. rewrite String.eqb_sym, (ty_eqb_sym T U). rewrite H. reflexivity.
  - apply orb_false_iff in H. destruct H as [H1 H2]. rewrite (IHf _ H1), (IHa _ H2). reflexivity.
  - assert (E : forall l, map (fun v0 => eval (upd sigV n T v) sigS ((tysem U, v0) :: env) b) l = map (fun v0 => eval sigV sigS ((tysem U, v0) :: env) b) l)
      by (intro l; apply map_ext; intro v0; apply IHb; exact H).
    rewrite E. reflexivity.
Qed.

Lemma eval_upd_svar : forall n T v sigV sigS s env,
  occurs_var true s (SVar n T) = false -> eval sigV (upd sigS n T v) env s = eval sigV sigS env s.
Proof.
  intros n T v sigV sigS. induction s as [m U|m U|m U|f IHf a IHa|x U b IHb|k]; intros env H; cbn [Sem.eval occurs_var] in *; try reflexivity.
  - cbn [tm_eqb] in H. unfold upd. rewrite String.eqb_sym, (ty_eqb_sym T U). rewrite H. reflexivity.
  - apply orb_false_iff in H. destruct H as [H1 H2]. rewrite (IHf _ H1), (IHa _ H2). reflexivity.
  - assert (E : forall l, map (fun v0 => eval sigV (upd sigS n T v) ((tysem U, v0) :: env) b) l = map (fun v0 => eval sigV sigS ((tysem U, v0) :: env) b) l)
      by (intro l; apply map_ext; intro v0; apply IHb; exact H).
    rewrite E. reflexivity.
Qed.

(* abstracting over a variable = reading its value from the environment *)
Lemma abstract_over_var_sem : forall n T v sigV sigS s k s' r1 r2,
  abstract_over_rec s k (Var n T) = Some s' -> is_open_rec s k = false -> List.length r1 = k ->
  eval sigV sigS (r1 ++ (tysem T, v) :: r2) s' = eval (upd sigV n T v) sigS (r1 ++ r2) s.
Proof.
  intros n T v sigV sigS. induction s as [m U|m U|m U|f IHf a IHa|x U b IHb|j]; intros k s' r1 r2 H Ho Hl; cbn [abstract_over_rec is_open_rec] in *.
  - inversion H; subst s'. reflexivity.
  - unfold upd. cbn [Sem.eval]. destruct (String.eqb m n) eqn:En.
    + destruct (ty_eqb U T) eqn:ET; [|discriminate]. inversion H; subst s'. cbn [Sem.eval].
      rewrite app_nth2 by lia. rewrite Hl, Nat.sub_diag. cbn [nth].
      apply ty_eqb_eq in ET. subst U. rewrite String.eqb_sym, En. rewrite ty_eqb_refl. reflexivity.
    + inversion H; subst s'. cbn [Sem.eval]. rewrite String.eqb_sym, En. reflexivity.
  - inversion H; subst s'. reflexivity.
  - apply orb_false_iff in Ho. destruct Ho as [Ho1 Ho2].
    destruct (abstract_over_rec f k (Var n T)) as [f'|] eqn:Ef; [|discriminate].
    destruct (abstract_over_rec a k (Var n T)) as [a'|] eqn:Ea; [|discriminate]. inversion H; subst s'.
    cbn [Sem.eval]. rewrite (IHf _ _ _ _ Ef Ho1 Hl), (IHa _ _ _ _ Ea Ho2 Hl). reflexivity.
  - destruct (abstract_over_rec b (S k) (Var n T)) as [b'|] eqn:Eb; [|discriminate]. inversion H; subst s'.
    cbn [Sem.eval].
    assert (E : forall l, map (fun v0 => eval sigV sigS ((tysem U, v0) :: r1 ++ (tysem T, v) :: r2) b') l =
                          map (fun v0 => eval (upd sigV n T v) sigS ((tysem U, v0) :: r1 ++ r2) b) l).
    { intro l. apply map_ext. intro v0. apply (IHb (S k) b' ((tysem U, v0) :: r1) r2 Eb Ho). cbn. lia. }
    rewrite E. reflexivity.
  - inversion H; subst s'. cbn [Sem.eval]. apply Nat.leb_gt in Ho. rewrite !app_nth1 by lia. reflexivity.
Qed.

Lemma abstract_over_svar_sem : forall n T v sigV sigS s k s' r1 r2,
  abstract_over_rec s k (SVar n T) = Some s' -> is_open_rec s k = false -> List.length r1 = k ->
  eval sigV sigS (r1 ++ (tysem T, v) :: r2) s' = eval sigV (upd sigS n T v) (r1 ++ r2) s.
Proof.
  intros n T v sigV sigS. induction s as [m U|m U|m U|f IHf a IHa|x U b IHb|j]; intros k s' r1 r2 H Ho Hl; cbn [abstract_over_rec is_open_rec] in *.
  - unfold upd. cbn [Sem.eval]. destruct (String.eqb m n) eqn:En.
    + destruct (ty_eqb U T) eqn:ET; [|discriminate]. inversion H; subst s'. cbn [Sem.eval].
      rewrite app_nth2 by lia. rewrite Hl, Nat.sub_diag. cbn [nth].
      apply ty_eqb_eq in ET. subst U. rewrite String.eqb_sym, En. rewrite ty_eqb_refl. reflexivity.
    + inversion H; subst s'. cbn [Sem.eval]. rewrite String.eqb_sym, En. reflexivity.
  - inversion H; subst s'. reflexivity.
  - inversion H; subst s'. reflexivity.
  - apply orb_false_iff in Ho. destruct Ho as [Ho1 Ho2].
    destruct (abstract_over_rec f k (SVar n T)) as [f'|] eqn:Ef; [|discriminate].
    destruct (abstract_over_rec a k (SVar n T)) as [a'|] eqn:Ea; [|discriminate]. inversion H; subst s'.
    cbn [Sem.eval]. rewrite (IHf _ _ _ _ Ef Ho1 Hl), (IHa _ _ _ _ Ea Ho2 Hl). reflexivity.
  - destruct (abstract_over_rec b (S k) (SVar n T)) as [b'|] eqn:Eb; [|discriminate]. inversion H; subst s'.
    cbn [Sem.eval].
    assert (E : forall l, map (fun v0 => eval sigV sigS ((tysem U, v0) :: r1 ++ (tysem T, v) :: r2) b') l =
                          map (fun v0 => eval sigV (upd sigS n T v) ((tysem U, v0) :: r1 ++ r2) b) l).
    { intro l. apply map_ext. intro v0. apply (IHb (S k) b' ((tysem U, v0) :: r1) r2 Eb Ho). cbn. lia. }
    rewrite E. reflexivity.
  - inversion H; subst s'. cbn [Sem.eval]. apply Nat.leb_gt in Ho. rewrite !app_nth1 by lia. reflexivity.
Qed.

Lemma val_ok_upd : forall sig n T v, val_ok DC thT thS sig -> In v (dom DC (tysem T)) -> val_ok DC thT thS (upd sig n T v).
Proof.
  intros sig n T v H Hv m U. unfold upd. destruct (String.eqb n m && ty_eqb T U) eqn:E; [|apply H].
  apply andb_true_iff in E. destruct E as [_ E]. apply ty_eqb_eq in E. subst U. exact Hv.
Qed.
End Upd.

(* ------------------------------------------------------------------ *)
(* instantiating a bound variable: what typing of the RESULT says about the
   substituted term (the kernel only calls get_type on it) *)
Fixpoint occ (n : nat) (b : tm) : bool :=
  match b with
  | Comb f a => occ n f || occ n a
  | Abs _ _ c => occ (S n) c
  | Bound k => Nat.eqb k n
  | _ => false
  end.

Lemma checked_closed_ctx : forall s pre ctx, is_open_rec s (List.length pre) = false ->
  checked_get_type_rec s (pre ++ ctx) = checked_get_type_rec s pre.
Proof.
  induction s as [n T|n T|n T|f IHf a IHa|x T b IHb|k]; intros pre ctx H; cbn [checked_get_type_rec is_open_rec] in *; try reflexivity.
  - apply orb_false_iff in H. destruct H as [H1 H2]. rewrite (IHf _ _ H1), (IHa _ _ H2). reflexivity.
  - pose proof (IHb (T :: pre) ctx H) as E. cbn [Datatypes.app] in E. rewrite E. reflexivity.
  - apply Nat.leb_gt in H. apply nth_error_app1. exact H.
Qed.

Lemma checked_open_incr : forall s lev n ctx, is_open_rec s lev = true -> List.length ctx = lev + n ->
  checked_get_type_rec (incr_boundvars_rec s lev n) ctx = None.
Proof.
  induction s as [m T|m T|m T|f IHf a IHa|x T b IHb|k]; intros lev n ctx H Hl; cbn [incr_boundvars_rec is_open_rec checked_get_type_rec] in *; try discriminate.
  - apply orb_true_iff in H. destruct H as [H|H].
    + rewrite (IHf _ _ _ H Hl). reflexivity.
    + rewrite (IHa _ _ _ H Hl). destruct (checked_get_type_rec (incr_boundvars_rec f lev n) ctx); reflexivity.
  - rewrite (IHb (S lev) n (T :: ctx) H); [reflexivity | cbn; lia].
  - rewrite H. cbn [checked_get_type_rec]. apply nth_error_None. apply Nat.leb_le in H. lia.
Qed.

Lemma subst_bound_typed_arg : forall b n s ctx R,
  checked_get_type_rec (subst_bound_rec b n s) ctx = Some R -> List.length ctx = n -> occ n b = true ->
  exists Ts, checked_get_type_rec s [] = Some Ts.
Proof.
  induction b as [m T|m T|m T|f IHf a IHa|x T c IHc|k]; intros n s ctx R H Hl Ho; cbn [subst_bound_rec occ checked_get_type_rec] in *; try discriminate.
  - destruct (checked_get_type_rec (subst_bound_rec f n s) ctx) as [Tf|] eqn:Ef; [|discriminate].
    destruct (checked_get_type_rec (subst_bound_rec a n s) ctx) as [Ta|] eqn:Ea; [|discriminate].
    apply orb_true_iff in Ho. destruct Ho as [Ho|Ho]; [apply (IHf _ _ _ _ Ef Hl Ho) | apply (IHa _ _ _ _ Ea Hl Ho)].
  - destruct (checked_get_type_rec (subst_bound_rec c (S n) s) (T :: ctx)) as [Tc|] eqn:Ec; [|discriminate].
    apply (IHc (S n) s (T :: ctx) Tc Ec); [cbn; lia | exact Ho].
  - rewrite Ho in H. destruct (is_open s) eqn:Eo.
    + unfold incr_boundvars in H. rewrite (checked_open_incr s 0 n ctx Eo) in H by (cbn; lia). discriminate.
    + exists R. rewrite <- (checked_closed_ctx s [] ctx Eo). exact H.
Qed.

Lemma not_occ_eval : forall DC thT thS IC sigV sigS b r1 e e' r2, occ (List.length r1) b = false ->
  eval DC thT thS IC sigV sigS (r1 ++ e :: r2) b = eval DC thT thS IC sigV sigS (r1 ++ e' :: r2) b.
Proof.
  intros DC thT thS IC sigV sigS. induction b as [m T|m T|m T|f IHf a IHa|x T c IHc|k]; intros r1 e e' r2 H; cbn [occ Sem.eval] in *; try reflexivity.
  - apply orb_false_iff in H. destruct H as [H1 H2]. rewrite (IHf _ e e' _ H1), (IHa _ e e' _ H2). reflexivity.
  - assert (E : forall l, map (fun v => eval DC thT thS IC sigV sigS ((tysem thT thS T, v) :: r1 ++ e :: r2) c) l =
                          map (fun v => eval DC thT thS IC sigV sigS ((tysem thT thS T, v) :: r1 ++ e' :: r2) c) l).
    { intro l. apply map_ext. intro v. apply (IHc ((tysem thT thS T, v) :: r1) e e' r2 H). }
    rewrite E. reflexivity.
  - apply Nat.eqb_neq in H. destruct (Nat.lt_ge_cases k (List.length r1)) as [Hlt|Hge].
    + rewrite !app_nth1 by lia. reflexivity.
    + rewrite !app_nth2 by lia. replace (k - List.length r1) with (S (k - List.length r1 - 1)) by lia. reflexivity.
Qed.
