(* Props_C06.v — property theorems for C06 (only statements closed by [exact]). *)
From Coq Require Import List String Bool ZArith.
Import ListNotations.
From HolpyV Require Import Z3Trans.

(* On the natural-number / integer fragment the (repaired) translation handed to
   Z3 has exactly the HOL meaning of the goal in every environment: natural
   subtraction truncates, natural-number binders range over non-negative
   integers only. *)
Theorem C06_translation_faithful : forall f e, zsem e (tr true f) <-> hsem e f.
Proof. exact tr_correct. Qed.
Print Assumptions C06_translation_faithful.

(* Hence, when the solver refutes premises + negated conclusion + (x >= 0 for the
   free natural-number variables), the goal follows from the premises under the
   HOL meaning for all admissible variable values (stated without excluded
   middle as a double negation).
   PARTIAL with respect to C06: reals, division, min / max / abs, if-then-else,
   sets as predicates, uninterpreted functions and the SymPy bridge are decided
   by exploration against an independent encoding and numeric counter-model
   search, not by a theorem. *)
Theorem C06_solve_sound : forall nat_vars prems concl,
  refuted true nat_vars prems concl ->
  forall e : env, (forall x, In x nat_vars -> (0 <= e x)%Z) ->
  (forall p, In p prems -> hsem e p) -> ~ ~ hsem e concl.
Proof. exact solve_sound. Qed.
Print Assumptions C06_solve_sound.

(* the translation of the pinned commit left nat binders unconstrained *)
Theorem C06_historical_translation_refuted :
  exists f, (forall e, zsem e (tr false f)) /\ (forall e, ~ hsem e f).
Proof. exact tr_historical_refuted. Qed.
Print Assumptions C06_historical_translation_refuted.
