(* Props_C06.v — property theorems for C06 (only statements closed by [exact]). *)
From Coq Require Import List String Bool ZArith.
Import ListNotations.
From HolpyV Require Import Z3Trans Kernel FoSimp FoSimpSound.

(* On the natural-number / integer fragment the (repaired) translation handed to
   Z3 has exactly the HOL meaning of the goal in every environment: natural
   subtraction truncates, natural-number binders range over non-negative
   integers only. *)
Theorem C06_translation_faithful : forall f e, zsem e (tr true f) <-> hsem e f.
Proof. exact tr_correct. Qed.
Print Assumptions C06_translation_faithful.

(* Hence, when the solver refutes premises + negated conclusion + (x >= 0 for the
   free natural-number variables), the goal follows from the premises under the
   HOL meaning for all admissible variable values (stated without excluded
   middle as a double negation).
   PARTIAL with respect to C06: reals, division, min / max / abs, if-then-else,
   sets as predicates, uninterpreted functions and the SymPy bridge are decided
   by exploration against an independent encoding and numeric counter-model
   search, not by a theorem. *)
Theorem C06_solve_sound : forall nat_vars prems concl,
  refuted true nat_vars prems concl ->
  forall e : env, (forall x, In x nat_vars -> (0 <= e x)%Z) ->
  (forall p, In p prems -> hsem e p) -> ~ ~ hsem e concl.
Proof. exact solve_sound. Qed.
Print Assumptions C06_solve_sound.

(* the translation of the pinned commit left nat binders unconstrained *)
Theorem C06_historical_translation_refuted :
  exists f, (forall e, zsem e (tr false f)) /\ (forall e, ~ hsem e f).
Proof. exact tr_historical_refuted. Qed.
Print Assumptions C06_historical_translation_refuted.

(* fologic.simplify (the last stage of z3wrapper.norm_term, applied to every goal before it is
   translated) on the quantifier-free propositional skeleton: the simplified formula has the truth
   value of the original under every valuation of the atoms.  A step that turns false = q into
   ~false (a seeded change) is refuted.  The result need not be free of constants
   (false = false becomes ~false): stated as a refutation, not a property of C06.
   Tie: case_simplify compares fologic.simplify with the model on generated formulas. *)
Theorem C06_simplify_meaning : forall v f, seval v (simplify f) = seval v f.
Proof. exact simplify_sem. Qed.
Print Assumptions C06_simplify_meaning.

Theorem C06_simplify_wrong_side_refuted : exists v f, seval v (simplify1_bad f) <> seval v f.
Proof. exact simplify1_bad_refuted. Qed.
Print Assumptions C06_simplify_wrong_side_refuted.

Theorem C06_simplify_constants_may_remain : exists f, ~ reduced (simplify f).
Proof. exact simplify_reduced_refuted. Qed.
Print Assumptions C06_simplify_constants_may_remain.

Example C06_simplify_example :
  let P := SAtom (Var "P" BoolT) in
  simplify (SImp (SNot (SIff SFalse P)) (SAnd STrue P)) = SImp P P /\ simplify (SIff SFalse SFalse) = SNot SFalse.
Proof. vm_compute. split; reflexivity. Qed.
