(* Props_C17.v — property theorems for C17. *)
From Coq Require Import List String Bool Arith.
Import ListNotations.
From HolpyV Require Import CC CCSound.

(* After any sequence of merges (constant equations and flattened equations
   f(a1,a2)=a, in any order, with any interleaving), two constants are reported
   equal by the model of CongClosure only if their equality follows from the
   merged equations by reflexivity, symmetry, transitivity and congruence.
   PARTIAL with respect to "exactly": the converse (completeness of the
   Nieuwenhuis-Oliveras structure) is decided per instance against naive_cc. *)
Theorem C17_no_sound : forall ops st t1 t2,
  run_ops ops cc_empty = Some st -> cc_test t1 t2 st = Some true ->
  CR (op_ceqs ops) (op_feqs ops) t1 t2.
Proof. exact no_sound. Qed.
Print Assumptions C17_no_sound.

(* The reference closure used as oracle identifies EXACTLY the related constants. *)
Theorem C17_naive_sound : forall ceqs feqs p a b,
  naive_cc ceqs feqs = Some p -> prep p a = prep p b -> CR ceqs feqs a b.
Proof. exact naive_sound. Qed.
Print Assumptions C17_naive_sound.

Theorem C17_naive_complete : forall ceqs feqs p a b,
  naive_cc ceqs feqs = Some p -> CR ceqs feqs a b -> prep p a = prep p b.
Proof. exact naive_complete. Qed.
Print Assumptions C17_naive_complete.

(* An explanation accepted by the checker uses only merged equations and
   proves every pair it explains. *)
Theorem C17_explain_check_sound : forall ceqs feqs res s t path,
  explain_check ceqs feqs res = true -> In ((s, t), path) res -> CR ceqs feqs s t.
Proof. exact explain_check_sound. Qed.
Print Assumptions C17_explain_check_sound.

(* Non-vacuity: f(a,b)=c, f(a',b)=c', a=a'  gives  c=c' with a checkable explanation. *)
Definition C17_example_ops := [OpMergeComb "a" "b" "c"; OpMergeComb "a2" "b" "c2"; OpMergeConst "a" "a2"].
Example C17_example :
  match run_ops C17_example_ops cc_empty with
  | Some st =>
      match cc_test "c" "c2" st, explain 50 st "c" "c2" [] with
      | Some true, Some e => explain_check (op_ceqs C17_example_ops) (op_feqs C17_example_ops) e
      | _, _ => false
      end
  | None => false
  end = true.
Proof. vm_compute. reflexivity. Qed.
