(* ProdSimp.v — model of the acceptance test of the Alethe rule prod_simplify
   (smt/veriT/verit_macro.py, ProdSimplifyMacro.eval) over an arbitrary commutative
   ring of numerals: products are flattened (integer.strip_times_full), the numerals are
   multiplied together, and the remaining factors are compared as LISTS.  Definitions only. *)
From Coq Require Import List Bool ZArith QArith Qcanon.
Import ListNotations.

Section Prod.
Variable R : Type.
Variable rmul : R -> R -> R.
Variable r0 r1 : R.
Variable reqb : R -> R -> bool.

Inductive pexp : Type :=
  | PNum (c : R)
  | PAtom (a : nat)
  | PMul (l r : pexp).

Definition fac : Type := (R + nat)%type.

Fixpoint strip (e : pexp) : list fac :=
  match e with
  | PNum c => [inl c]
  | PAtom a => [inr a]
  | PMul l r => strip l ++ strip r
  end.

Fixpoint peval (v : nat -> R) (e : pexp) : R :=
  match e with
  | PNum c => c
  | PAtom a => v a
  | PMul l r => rmul (peval v l) (peval v r)
  end.

Definition consts (l : list fac) : list R :=
  flat_map (fun f => match f with inl c => [c] | inr _ => [] end) l.
Definition atoms (l : list fac) : list nat :=
  flat_map (fun f => match f with inl _ => [] | inr a => [a] end) l.
Definition rprod (l : list R) : R := fold_right rmul r1 l.
Definition is_mul (e : pexp) : bool := match e with PMul _ _ => true | _ => false end.
Definition is_num (f : fac) : bool := match f with inl _ => true | inr _ => false end.
Definition is_zero_fac (f : fac) : bool := match f with inl c => reqb c r0 | inr _ => false end.

Fixpoint list_nat_eqb (l m : list nat) : bool :=
  match l, m with
  | [], [] => true
  | a :: l', b :: m' => Nat.eqb a b && list_nat_eqb l' m'
  | _, _ => false
  end.

(* after the optional exchange of the sides: lhs is the product *)
Definition accept_oriented (lhs rhs : pexp) : bool :=
  let lp := strip lhs in
  let rp := strip rhs in
  (* case 1: all factors numerals, right side the numeral that is their product *)
  (forallb is_num lp && match rhs with PNum c => reqb (rprod (consts lp)) c | _ => false end)
  (* case 2: right side zero and a factor zero *)
  || (match rhs with PNum c => reqb c r0 | _ => false end && existsb is_zero_fac lp)
  (* case 3: (at least one numeral on the left) same product of the numerals, same list of other factors *)
  || (match consts lp with [] => false | _ => true end
      && reqb (rprod (consts lp)) (rprod (consts rp)) && list_nat_eqb (atoms lp) (atoms rp)).

Definition accept (lhs rhs : pexp) : bool :=
  if negb (is_mul lhs) && negb (is_mul rhs) then false
  else if negb (is_mul lhs) && is_mul rhs then accept_oriented rhs lhs
  else accept_oriented lhs rhs.

(* the variant that compares the other factors as SETS (a seeded change): used for the refutation *)
Definition subset_nat (l m : list nat) : bool := forallb (fun a => existsb (Nat.eqb a) m) l.
Definition accept_sets (lhs rhs : pexp) : bool :=
  let lp := strip lhs in
  let rp := strip rhs in
  match consts lp with [] => false | _ => true end
  && reqb (rprod (consts lp)) (rprod (consts rp)) && subset_nat (atoms lp) (atoms rp) && subset_nat (atoms rp) (atoms lp).

End Prod.

Arguments PNum {R} c.
Arguments PAtom {R} a.
Arguments PMul {R} l r.

(* instances: integers, and canonical rationals for the reals' numerals *)
Definition accept_Z := accept Z Z.mul 0%Z 1%Z Z.eqb.
Definition accept_Qc := accept Qc Qcmult (Q2Qc 0) (Q2Qc 1) Qc_eq_bool.

Definition case_prod_Z (l r : @pexp Z) (impl : bool) : nat := if Bool.eqb (accept_Z l r) impl then 1 else 0.
Definition case_prod_Qc (l r : @pexp Qc) (impl : bool) : nat := if Bool.eqb (accept_Qc l r) impl then 1 else 0.
