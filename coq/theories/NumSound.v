(* NumSound.v — the type-blind evaluators agree with the type-directed standard
   meaning on terms that have one, hence the guarded macros assert true facts. *)
From Coq Require Import List String Bool ZArith QArith Lia Lqa.
Import ListNotations.
From HolpyV Require Import Kernel KernelLemmas NumEval.
Open Scope string_scope.
Open Scope list_scope.
Open Scope Q_scope.

Ltac caseb E :=
  repeat match type of E with
         | context [if ?b then _ else _] => destruct b eqn:?; try discriminate
         | context [match ?x with _ => _ end] => destruct x eqn:?; try discriminate
         end.

Lemma nty_eqb_eq : forall a b, nty_eqb a b = true -> a = b.
Proof. destruct a, b; cbn; congruence. Qed.

Lemma str_eq : forall a b, String.eqb a b = true -> a = b.
Proof. intros. apply String.eqb_eq. assumption. Qed.

(* ---- numerals ---- *)
Lemma binary_sem : forall b k q, is_binary b = true -> sem b = Some (k, q) -> q == inject_Z (dest_binary b).
Proof.
  induction b as [n T|n T|n T|f IHf a IHa|x T b0 IHb|j]; intros k q Hb Hs; cbn [is_binary] in Hb; try discriminate.
  - cbn [sem] in Hs. destruct (nty_of T); [|discriminate]. cbn [dest_binary].
    destruct (String.eqb n "zero") eqn:E0.
    + inversion Hs; subst. apply str_eq in E0. subst. cbn. reflexivity.
    + destruct (String.eqb n "one") eqn:E1; [|discriminate]. inversion Hs; subst. reflexivity.
  - destruct f as [| |n T| | |]; try discriminate. apply andb_true_iff in Hb. destruct Hb as [Hn Ha].
    cbn [sem] in Hs. destruct (sem a) as [[ka x]|] eqn:Ea; [|discriminate].
    pose proof (IHa ka x Ha eq_refl) as Hx. cbn [dest_binary].
    destruct (String.eqb n "bit0") eqn:B0.
    + apply str_eq in B0. subst n. cbn [String.eqb Ascii.eqb Bool.eqb] in *.
      destruct (nty_eqb ka NNat && is_fun1 T NatT NatT); [|discriminate]. inversion Hs; subst.
      rewrite Hx. unfold inject_Z, Qeq, Qmult. cbn. lia.
    + destruct (String.eqb n "bit1") eqn:B1; [|discriminate]. apply str_eq in B1. subst n.
      cbn [String.eqb Ascii.eqb Bool.eqb] in *.
      destruct (nty_eqb ka NNat && is_fun1 T NatT NatT); [|discriminate]. inversion Hs; subst.
      rewrite Hx. unfold inject_Z, Qeq, Qmult, Qplus. cbn. lia.
Qed.

Lemma is_cname_const : forall n t, is_cname n t = true -> exists T, t = Const n T.
Proof. intros n t H. destruct t; try discriminate. cbn in H. apply str_eq in H. subst. eauto. Qed.

Lemma nat_number_sem : forall t k q, is_nat_number t = true -> sem t = Some (k, q) -> q == inject_Z (dest_nat_number t).
Proof.
  intros t k q H Hs. unfold is_nat_number in H. apply orb_true_iff in H. destruct H as [H|H].
  - apply orb_true_iff in H. destruct H as [H|H]; apply is_cname_const in H; destruct H as [T ->];
      cbn [sem] in Hs; destruct (nty_of T); try discriminate; cbn in Hs; inversion Hs; reflexivity.
  - destruct t as [| | |f a| |]; try discriminate. destruct f as [| |n T| | |]; try discriminate.
    apply andb_true_iff in H. destruct H as [Hn Ha]. apply str_eq in Hn. subst n.
    cbn [sem] in Hs. destruct (sem a) as [[ka x]|] eqn:Ea; [|discriminate].
    cbn [String.eqb Ascii.eqb Bool.eqb] in Hs. cbn [dest_nat_number].
    assert (q = x) by (caseb Hs; inversion Hs; reflexivity). subst q.
    eapply binary_sem; eauto.
Qed.

Lemma frac_number_sem : forall t k q, is_frac_number t = true -> sem t = Some (k, q) -> q == dest_frac_number t.
Proof.
  intros t k q H Hs. unfold is_frac_number in H.
  destruct t as [| | |f b| |]; try (eapply nat_number_sem in H; eauto; fail).
  destruct f as [| | |g a| |]; try (eapply nat_number_sem in H; eauto; fail).
  destruct g as [| |n T| | |]; try (eapply nat_number_sem in H; eauto; fail).
  repeat (apply andb_true_iff in H; destruct H as [H ?]). apply str_eq in H. subst n.
  cbn [sem] in Hs. destruct (sem a) as [[ka x]|] eqn:Ea; [|discriminate]. destruct (sem b) as [[kb y]|] eqn:Eb; [|discriminate].
  cbn [String.eqb Ascii.eqb Bool.eqb] in Hs.
  destruct (nty_eqb ka NReal && nty_eqb kb NReal && is_fun2 T RealT RealT RealT); [|discriminate]. inversion Hs; subst. clear Hs.
  match goal with Ha : is_nat_number a = true, Hb : is_nat_number b = true |- _ =>
    pose proof (nat_number_sem _ _ _ Ha Ea) as Hx; pose proof (nat_number_sem _ _ _ Hb Eb) as Hy end.
  cbn [dest_frac_number]. destruct (Z.eqb (dest_nat_number b) 0) eqn:Z0.
  - apply Z.eqb_eq in Z0. rewrite Z0 in Hy. assert (Qeq_bool y 0 = true) by (apply Qeq_bool_iff; exact Hy). rewrite H. reflexivity.
  - apply Z.eqb_neq in Z0. assert (Hy0 : ~ y == 0).
    { intro Hc. rewrite Hy in Hc. unfold Qeq, inject_Z in Hc. cbn in Hc. lia. }
    assert (Qeq_bool y 0 = false) by (apply not_true_iff_false; intro Hc; apply Qeq_bool_iff in Hc; contradiction).
    rewrite H. destruct (Z.eqb (dest_nat_number b) 1) eqn:Z1.
    + apply Z.eqb_eq in Z1. rewrite Z1 in Hy. rewrite Hx, Hy. field.
    + rewrite Hx, Hy. reflexivity.
Qed.

Lemma number_sem : forall t k q, is_number t = true -> sem t = Some (k, q) -> q == dest_number t.
Proof.
  intros t k q H Hs. unfold is_number in H. apply orb_true_iff in H. destruct H as [H|H].
  - apply orb_true_iff in H. destruct H as [H|H]; apply is_cname_const in H; destruct H as [T ->];
      cbn [sem] in Hs; destruct (nty_of T); try discriminate; cbn in Hs; inversion Hs; reflexivity.
  - destruct t as [| | |f a| |]; try (unfold dest_number; eapply frac_number_sem; eauto; fail).
    destruct f as [| |n T| | |]; try (unfold dest_number; eapply frac_number_sem; eauto; fail).
    cbn [dest_number]. destruct (String.eqb n "uminus") eqn:Eu; [|eapply frac_number_sem; eauto].
    apply str_eq in Eu. subst n. apply andb_true_iff in H. destruct H as [Hf _].
    cbn [sem] in Hs. destruct (sem a) as [[ka x]|] eqn:Ea; [|discriminate].
    cbn [String.eqb Ascii.eqb Bool.eqb] in Hs.
    destruct (negb (nty_eqb ka NNat) && is_fun1 T (ty_of_nty ka) (ty_of_nty ka)); [|discriminate]. inversion Hs; subst.
    rewrite (frac_number_sem _ _ _ Hf Ea). reflexivity.
Qed.

(* ---- evaluators ---- *)
Fixpoint tsize (t : tm) : nat :=
  match t with
  | Comb f a => S (tsize f + tsize a)
  | Abs _ _ b => S (tsize b)
  | _ => 1%nat
  end.

Lemma Qle_bool_comp : forall x x' y y', x == x' -> y == y' -> Qle_bool x y = Qle_bool x' y'.
Proof.
  intros x x' y y' Hx Hy. destruct (Qle_bool x y) eqn:E; symmetry.
  - apply Qle_bool_iff. apply Qle_bool_iff in E. rewrite <- Hx, <- Hy. exact E.
  - apply not_true_iff_false. intro Hc. apply Qle_bool_iff in Hc. rewrite <- Hx, <- Hy in Hc.
    apply Qle_bool_iff in Hc. congruence.
Qed.

Lemma Qeq_bool_comp : forall x x' y y', x == x' -> y == y' -> Qeq_bool x y = Qeq_bool x' y'.
Proof.
  intros x x' y y' Hx Hy. destruct (Qeq_bool x y) eqn:E; symmetry.
  - apply Qeq_bool_iff. apply Qeq_bool_iff in E. rewrite <- Hx, <- Hy. exact E.
  - apply not_true_iff_false. intro Hc. apply Qeq_bool_iff in Hc. rewrite <- Hx, <- Hy in Hc.
    apply Qeq_bool_iff in Hc. congruence.
Qed.

Lemma nat_eval_unfold : forall t, nat_eval t =
  if is_number t then Some (dest_number t)
  else match t with
  | Comb (Const n _) a =>
      if String.eqb n "Suc" then match nat_eval a with Some x => Some (x + 1) | None => None end else None
  | Comb (Comb (Const n _) a) b =>
      match nat_eval a, nat_eval b with
      | Some x, Some y =>
          if String.eqb n "plus" then Some (x + y)
          else if String.eqb n "minus" then Some (if Qle_bool x y then 0 else x - y)
          else if String.eqb n "times" then Some (x * y)
          else None
      | _, _ => None
      end
  | _ => None
  end.
Proof. destruct t; reflexivity. Qed.

Lemma int_eval_unfold : forall t, int_eval t =
  if is_number t then Some (dest_number t)
  else match t with
  | Comb (Const n _) a =>
      if String.eqb n "uminus" then match int_eval a with Some x => Some (- x) | None => None end else None
  | Comb (Comb (Const n _) a) b =>
      match int_eval a, int_eval b with
      | Some x, Some y =>
          if String.eqb n "plus" then Some (x + y)
          else if String.eqb n "minus" then Some (x - y)
          else if String.eqb n "times" then Some (x * y)
          else None
      | _, _ => None
      end
  | _ => None
  end.
Proof. destruct t; reflexivity. Qed.

(* a string equal to one literal differs from the others *)
Ltac str_cases :=
  repeat match goal with
         | Hs : String.eqb ?n ?lit = true |- _ => apply str_eq in Hs; subst n; cbn [String.eqb Ascii.eqb Bool.eqb] in *
         end.

Lemma nat_eval_sound_n : forall m t v q, (tsize t <= m)%nat ->
  nat_eval t = Some v -> sem t = Some (NNat, q) -> q == v.
Proof.
  induction m as [|m IH]; intros t v q Hsz He Hs; [destruct t; cbn in Hsz; lia|].
  rewrite nat_eval_unfold in He. destruct (is_number t) eqn:En.
  - inversion He; subst. eapply number_sem; eauto.
  - destruct t as [| | |f b| |]; try discriminate. destruct f as [| |n T|g a| |]; try discriminate.
    + (* unary *)
      destruct (String.eqb n "Suc") eqn:ES; [|discriminate]. str_cases.
      destruct (nat_eval b) as [x|] eqn:Eb; [|discriminate]. inversion He; subst. clear He.
      cbn [sem] in Hs. destruct (sem b) as [[kb y]|] eqn:Esb; [|discriminate].
      cbn [String.eqb Ascii.eqb Bool.eqb] in Hs.
      destruct (nty_eqb kb NNat && is_fun1 T NatT NatT) eqn:Ek; [|discriminate]. inversion Hs; subst.
      apply andb_true_iff in Ek. destruct Ek as [Ek _]. apply nty_eqb_eq in Ek. subst kb.
      rewrite (IH b x y); [reflexivity | cbn in Hsz; lia | exact Eb | exact Esb].
    + (* binary *)
      destruct g as [| |n T| | |]; try discriminate.
      destruct (nat_eval a) as [x|] eqn:Ea; [|discriminate]. destruct (nat_eval b) as [y|] eqn:Eb; [|discriminate].
      cbn [sem] in Hs. destruct (sem a) as [[ka x']|] eqn:Esa; [|discriminate]. destruct (sem b) as [[kb y']|] eqn:Esb; [|discriminate].
      assert (Hka : forall A, (if nty_eqb ka kb && is_fun2 T (ty_of_nty ka) (ty_of_nty ka) (ty_of_nty ka) then Some (ka, A) else None) = Some (NNat, q)
                      -> ka = NNat /\ kb = NNat /\ A = q).
      { intros A HA. destruct (nty_eqb ka kb && _) eqn:Ek; [|discriminate]. inversion HA; subst.
        apply andb_true_iff in Ek. destruct Ek as [Ek _]. apply nty_eqb_eq in Ek. subst. auto. }
      destruct (String.eqb n "plus") eqn:E1; [str_cases|].
      { inversion He; subst. apply Hka in Hs. destruct Hs as [-> [-> <-]].
        rewrite (IH a x x'), (IH b y y'); try eassumption; try (cbn in Hsz; lia). reflexivity. }
      destruct (String.eqb n "minus") eqn:E2; [str_cases|].
      { inversion He; subst. apply Hka in Hs. destruct Hs as [-> [-> <-]].
        assert (Hx : x' == x) by (eapply IH; try eassumption; cbn in Hsz; lia).
        assert (Hy : y' == y) by (eapply IH; try eassumption; cbn in Hsz; lia).
        rewrite (Qle_bool_comp _ _ _ _ Hx Hy). destruct (Qle_bool x y); [reflexivity | rewrite Hx, Hy; reflexivity]. }
      destruct (String.eqb n "times") eqn:E3; [str_cases|discriminate].
      { inversion He; subst. apply Hka in Hs. destruct Hs as [-> [-> <-]].
        rewrite (IH a x x'), (IH b y y'); try eassumption; try (cbn in Hsz; lia). reflexivity. }
Qed.

Theorem nat_eval_sound : forall t v q, nat_eval t = Some v -> sem t = Some (NNat, q) -> q == v.
Proof. intros t v q. apply (nat_eval_sound_n (tsize t)). lia. Qed.

Lemma int_eval_sound_n : forall m t v k q, (tsize t <= m)%nat -> k <> NNat ->
  int_eval t = Some v -> sem t = Some (k, q) -> q == v.
Proof.
  induction m as [|m IH]; intros t v k q Hsz Hk He Hs; [destruct t; cbn in Hsz; lia|].
  rewrite int_eval_unfold in He. destruct (is_number t) eqn:En.
  - inversion He; subst. eapply number_sem; eauto.
  - destruct t as [| | |f b| |]; try discriminate. destruct f as [| |n T|g a| |]; try discriminate.
    + destruct (String.eqb n "uminus") eqn:ES; [|discriminate]. str_cases.
      destruct (int_eval b) as [x|] eqn:Eb; [|discriminate]. inversion He; subst. clear He.
      cbn [sem] in Hs. destruct (sem b) as [[kb y]|] eqn:Esb; [|discriminate].
      cbn [String.eqb Ascii.eqb Bool.eqb] in Hs.
      destruct (negb (nty_eqb kb NNat) && is_fun1 T (ty_of_nty kb) (ty_of_nty kb)) eqn:Ek; [|discriminate]. inversion Hs; subst.
      rewrite (IH b x k y); [reflexivity | cbn in Hsz; lia | exact Hk | exact Eb | exact Esb].
    + destruct g as [| |n T| | |]; try discriminate.
      destruct (int_eval a) as [x|] eqn:Ea; [|discriminate]. destruct (int_eval b) as [y|] eqn:Eb; [|discriminate].
      cbn [sem] in Hs. destruct (sem a) as [[ka x']|] eqn:Esa; [|discriminate]. destruct (sem b) as [[kb y']|] eqn:Esb; [|discriminate].
      assert (Hka : forall A, (if nty_eqb ka kb && is_fun2 T (ty_of_nty ka) (ty_of_nty ka) (ty_of_nty ka) then Some (ka, A) else None) = Some (k, q)
                      -> ka = k /\ kb = k /\ A = q).
      { intros A HA. destruct (nty_eqb ka kb && _) eqn:Ek; [|discriminate]. inversion HA; subst.
        apply andb_true_iff in Ek. destruct Ek as [Ek _]. apply nty_eqb_eq in Ek. subst. auto. }
      destruct (String.eqb n "plus") eqn:E1; [str_cases|].
      { inversion He; subst. apply Hka in Hs. destruct Hs as [-> [-> <-]].
        rewrite (IH a x k x'), (IH b y k y'); try eassumption; try (cbn in Hsz; lia). reflexivity. }
      destruct (String.eqb n "minus") eqn:E2; [str_cases|].
      { inversion He; subst. apply Hka in Hs. destruct Hs as [-> [-> <-]].
        assert (Hx : x' == x) by (eapply IH; try eassumption; cbn in Hsz; lia).
        assert (Hy : y' == y) by (eapply IH; try eassumption; cbn in Hsz; lia).
        destruct k; [congruence | rewrite Hx, Hy; reflexivity | rewrite Hx, Hy; reflexivity]. }
      destruct (String.eqb n "times") eqn:E3; [str_cases|discriminate].
      { inversion He; subst. apply Hka in Hs. destruct Hs as [-> [-> <-]].
        rewrite (IH a x k x'), (IH b y k y'); try eassumption; try (cbn in Hsz; lia). reflexivity. }
Qed.

Theorem int_eval_sound : forall t v q, int_eval t = Some v -> sem t = Some (NInt, q) -> q == v.
Proof. intros t v q. apply (int_eval_sound_n (tsize t)); [lia | discriminate]. Qed.

Lemma real_eval_unfold : forall t, real_eval t =
  if is_number t then Some (dest_number t)
  else match t with
  | Comb (Const n T) a =>
      if String.eqb n "of_nat" then nat_eval a
      else if String.eqb n "of_int" then int_eval a
      else if String.eqb n "uminus" then match real_eval a with Some x => Some (- x) | None => None end
      else if String.eqb n "real_inverse" then
        (match get_type a with
         | Some Ta => if ty_eqb Ta RealT then
                        match real_eval a with
                        | Some x => if Qeq_bool x 0 then None else Some (/ x)
                        | None => None
                        end
                      else None
         | None => None
         end)
      else None
  | Comb (Comb (Const n T) a) b =>
      if String.eqb n "plus" then match real_eval a, real_eval b with Some x, Some y => Some (x + y) | _, _ => None end
      else if String.eqb n "minus" then match real_eval a, real_eval b with Some x, Some y => Some (x - y) | _, _ => None end
      else if String.eqb n "times" then match real_eval a, real_eval b with Some x, Some y => Some (x * y) | _, _ => None end
      else if String.eqb n "real_divide" then
        match real_eval a, real_eval b with
        | Some x, Some y => if Qeq_bool y 0 then None else Some (x / y)
        | _, _ => None
        end
      else if String.eqb n "power" then
        match get_type b with
        | Some Tb => if ty_eqb Tb NatT then
                       match real_eval a, nat_eval b with
                       | Some x, Some k => qpow x k
                       | _, _ => None
                       end
                     else None
        | None => None
        end
      else None
  | _ => None
  end.
Proof. destruct t; reflexivity. Qed.

Lemma qpow_comp : forall x x' k k' p, x == x' -> k == k' -> qpow x k = Some p ->
  exists p', qpow x' k' = Some p' /\ p' == p.
Proof.
  intros x x' k k' p Hx Hk H. unfold qpow, q_is_int in *. rewrite <- (Qred_complete _ _ Hk).
  destruct (Pos.eqb (Qden (Qred k)) 1); [|discriminate]. destruct (Qnum (Qred k) <? 0)%Z; [discriminate|].
  inversion H; subst. eexists. split; [reflexivity|]. rewrite Hx. reflexivity.
Qed.

Lemma real_eval_sound_n : forall m t v q, (tsize t <= m)%nat ->
  real_eval t = Some v -> sem t = Some (NReal, q) -> q == v.
Proof.
  induction m as [|m IH]; intros t v q Hsz He Hs; [destruct t; cbn in Hsz; lia|].
  rewrite real_eval_unfold in He. destruct (is_number t) eqn:En.
  - inversion He; subst. eapply number_sem; eauto.
  - destruct t as [| | |f b| |]; try discriminate. destruct f as [| |n T|g a| |]; try discriminate.
    + (* unary *)
      cbn [sem] in Hs. destruct (sem b) as [[kb y]|] eqn:Esb; [|discriminate].
      destruct (String.eqb n "of_nat") eqn:E1; [str_cases|].
      { assert (kb = NNat /\ y = q) by (caseb Hs; inversion Hs; subst; split; [apply nty_eqb_eq; assumption | reflexivity]).
        destruct H as [-> ->]. eapply nat_eval_sound; eauto. }
      destruct (String.eqb n "of_int") eqn:E2; [str_cases|].
      { assert (kb = NInt /\ y = q) by (caseb Hs; inversion Hs; subst; split; [apply nty_eqb_eq; assumption | reflexivity]).
        destruct H as [-> ->]. eapply int_eval_sound; eauto. }
      destruct (String.eqb n "uminus") eqn:E3; [str_cases|].
      { destruct (real_eval b) as [x|] eqn:Eb; [|discriminate]. inversion He; subst.
        assert (kb = NReal /\ q = - y) by (caseb Hs; inversion Hs; subst; auto).
        destruct H as [-> ->]. rewrite (IH b x y); [reflexivity | cbn in Hsz; lia | exact Eb | exact Esb]. }
      destruct (String.eqb n "real_inverse") eqn:E4; [str_cases|discriminate].
      { destruct (get_type b) as [Tb|]; [|discriminate]. destruct (ty_eqb Tb RealT); [|discriminate].
        destruct (real_eval b) as [x|] eqn:Eb; [|discriminate]. destruct (Qeq_bool x 0) eqn:E0; [discriminate|]. inversion He; subst.
        assert (kb = NReal /\ q = (if Qeq_bool y 0 then 0 else / y)).
        { destruct (nty_eqb kb NReal && is_fun1 T RealT RealT) eqn:Ek; [|discriminate]. inversion Hs; subst.
          apply andb_true_iff in Ek. destruct Ek as [Ek _]. apply nty_eqb_eq in Ek. auto. }
        destruct H as [-> ->].
        assert (Hy : y == x) by (eapply IH; try eassumption; cbn in Hsz; lia).
        rewrite (Qeq_bool_comp y x 0 0 Hy (Qeq_refl 0)), E0, Hy. reflexivity. }
    + (* binary *)
      destruct g as [| |n T| | |]; try discriminate.
      cbn [sem] in Hs. destruct (sem a) as [[ka x']|] eqn:Esa; [|discriminate]. destruct (sem b) as [[kb y']|] eqn:Esb; [|discriminate].
      assert (Hka : forall A, (if nty_eqb ka kb && is_fun2 T (ty_of_nty ka) (ty_of_nty ka) (ty_of_nty ka) then Some (ka, A) else None) = Some (NReal, q)
                      -> ka = NReal /\ kb = NReal /\ A = q).
      { intros A HA. destruct (nty_eqb ka kb && _) eqn:Ek; [|discriminate]. inversion HA; subst.
        apply andb_true_iff in Ek. destruct Ek as [Ek _]. apply nty_eqb_eq in Ek. subst. auto. }
      destruct (String.eqb n "plus") eqn:E1; [str_cases|].
      { destruct (real_eval a) as [x|] eqn:Ea; [|discriminate]. destruct (real_eval b) as [y|] eqn:Eb; [|discriminate].
        inversion He; subst. apply Hka in Hs. destruct Hs as [-> [-> <-]].
        rewrite (IH a x x'), (IH b y y'); try eassumption; try (cbn in Hsz; lia). reflexivity. }
      destruct (String.eqb n "minus") eqn:E2; [str_cases|].
      { destruct (real_eval a) as [x|] eqn:Ea; [|discriminate]. destruct (real_eval b) as [y|] eqn:Eb; [|discriminate].
        inversion He; subst. apply Hka in Hs. destruct Hs as [-> [-> <-]].
        rewrite (IH a x x'), (IH b y y'); try eassumption; try (cbn in Hsz; lia). reflexivity. }
      destruct (String.eqb n "times") eqn:E3; [str_cases|].
      { destruct (real_eval a) as [x|] eqn:Ea; [|discriminate]. destruct (real_eval b) as [y|] eqn:Eb; [|discriminate].
        inversion He; subst. apply Hka in Hs. destruct Hs as [-> [-> <-]].
        rewrite (IH a x x'), (IH b y y'); try eassumption; try (cbn in Hsz; lia). reflexivity. }
      destruct (String.eqb n "real_divide") eqn:E4; [str_cases|].
      { destruct (real_eval a) as [x|] eqn:Ea; [|discriminate]. destruct (real_eval b) as [y|] eqn:Eb; [|discriminate].
        destruct (Qeq_bool y 0) eqn:E0; [discriminate|]. inversion He; subst.
        destruct (nty_eqb ka NReal && nty_eqb kb NReal && is_fun2 T RealT RealT RealT) eqn:Ek; [|discriminate]. inversion Hs; subst.
        apply andb_true_iff in Ek. destruct Ek as [Ek _]. apply andb_true_iff in Ek. destruct Ek as [Ek1 Ek2].
        apply nty_eqb_eq in Ek1. apply nty_eqb_eq in Ek2. subst.
        assert (Hx : x' == x) by (eapply IH; try eassumption; cbn in Hsz; lia).
        assert (Hy : y' == y) by (eapply IH; try eassumption; cbn in Hsz; lia).
        rewrite (Qeq_bool_comp y' y 0 0 Hy (Qeq_refl 0)), E0, Hx, Hy. reflexivity. }
      destruct (String.eqb n "power") eqn:E5; [str_cases|discriminate].
      { destruct (get_type b) as [Tb|]; [|discriminate]. destruct (ty_eqb Tb NatT); [|discriminate].
        destruct (real_eval a) as [x|] eqn:Ea; [|discriminate]. destruct (nat_eval b) as [y|] eqn:Eb; [|discriminate].
        destruct (nty_eqb kb NNat && is_fun2 T (ty_of_nty ka) NatT (ty_of_nty ka)) eqn:Ek; [|discriminate].
        destruct (qpow x' y') as [p|] eqn:Ep; [|discriminate]. inversion Hs; subst.
        apply andb_true_iff in Ek. destruct Ek as [Ek _]. apply nty_eqb_eq in Ek. subst kb.
        assert (Hx : x' == x) by (eapply IH; try eassumption; cbn in Hsz; lia).
        assert (Hy : y' == y) by (eapply nat_eval_sound; eassumption).
        destruct (qpow_comp _ _ _ _ _ Hx Hy Ep) as [p' [Hp' Hpp]]. rewrite Hp' in He. inversion He; subst. symmetry. exact Hpp. }
Qed.

Theorem real_eval_sound : forall t v q, real_eval t = Some v -> sem t = Some (NReal, q) -> q == v.
Proof. intros t v q. apply (real_eval_sound_n (tsize t)). lia. Qed.

(* ---- the guarded macros only assert facts that are true under the standard meaning ---- *)
Lemma opt_qeq_true : forall a b, opt_qeq a b = true -> exists x y, a = Some x /\ b = Some y /\ x == y.
Proof.
  intros [x|] [y|] H; try discriminate. cbn in H. apply Qeq_bool_iff in H. eauto.
Qed.

Lemma sem_goal_eq : forall goal l r, eq_sides goal = Some (l, r) ->
  sem_goal goal = match sem l, sem r with
                  | Some (kl, x), Some (kr, y) => if negb (nty_eqb kl kr) then None else Some (Qeq_bool x y)
                  | _, _ => None
                  end.
Proof.
  intros goal l r H. unfold eq_sides, dest_binop in H. destruct goal as [| | |f b| |]; try discriminate.
  destruct f as [| | |g a| |]; try discriminate. destruct g as [| |n T| | |]; try discriminate.
  destruct (String.eqb n "equals") eqn:E; [|discriminate]. inversion H; subst. apply str_eq in E. subst n.
  unfold sem_goal, bin. destruct (sem l) as [[kl x]|]; [|reflexivity]. destruct (sem r) as [[kr y]|]; [|reflexivity].
  destruct (negb (nty_eqb kl kr)); reflexivity.
Qed.

Theorem nat_eval_macro_sound : forall goal b,
  acc_nat_eval true goal = true -> sem_goal goal = Some b ->
  (forall l r, eq_sides goal = Some (l, r) -> exists q, sem l = Some (NNat, q)) -> b = true.
Proof.
  intros goal b H Hg Hty. unfold acc_nat_eval in H. destruct (eq_sides goal) as [[l r]|] eqn:E; [|discriminate].
  apply andb_true_iff in H. destruct H as [_ H]. apply opt_qeq_true in H. destruct H as [x [y [Hx [Hy Hxy]]]].
  rewrite (sem_goal_eq _ _ _ E) in Hg. destruct (Hty l r eq_refl) as [q Hl]. rewrite Hl in Hg.
  destruct (sem r) as [[kr q']|] eqn:Er; [|discriminate]. destruct (nty_eqb NNat kr) eqn:Ek; [|discriminate].
  apply nty_eqb_eq in Ek. subst kr. cbn in Hg. inversion Hg; subst. apply Qeq_bool_iff.
  rewrite (nat_eval_sound _ _ _ Hx Hl), (nat_eval_sound _ _ _ Hy Er). exact Hxy.
Qed.

Theorem int_eval_macro_sound : forall goal b,
  acc_int_eval true goal = true -> sem_goal goal = Some b ->
  (forall l r, eq_sides goal = Some (l, r) -> exists q, sem l = Some (NInt, q)) -> b = true.
Proof.
  intros goal b H Hg Hty. unfold acc_int_eval in H. destruct (eq_sides goal) as [[l r]|] eqn:E; [|discriminate].
  apply andb_true_iff in H. destruct H as [_ H]. apply opt_qeq_true in H. destruct H as [x [y [Hx [Hy Hxy]]]].
  rewrite (sem_goal_eq _ _ _ E) in Hg. destruct (Hty l r eq_refl) as [q Hl]. rewrite Hl in Hg.
  destruct (sem r) as [[kr q']|] eqn:Er; [|discriminate]. destruct (nty_eqb NInt kr) eqn:Ek; [|discriminate].
  apply nty_eqb_eq in Ek. subst kr. cbn in Hg. inversion Hg; subst. apply Qeq_bool_iff.
  rewrite (int_eval_sound _ _ _ Hx Hl), (int_eval_sound _ _ _ Hy Er). exact Hxy.
Qed.

Theorem real_eval_macro_sound : forall goal b,
  acc_real_eval true goal = true -> sem_goal goal = Some b ->
  (forall l r, eq_sides goal = Some (l, r) -> exists q, sem l = Some (NReal, q)) -> b = true.
Proof.
  intros goal b H Hg Hty. unfold acc_real_eval in H. destruct (eq_sides goal) as [[l r]|] eqn:E; [|discriminate].
  apply andb_true_iff in H. destruct H as [_ H]. apply opt_qeq_true in H. destruct H as [x [y [Hx [Hy Hxy]]]].
  rewrite (sem_goal_eq _ _ _ E) in Hg. destruct (Hty l r eq_refl) as [q Hl]. rewrite Hl in Hg.
  destruct (sem r) as [[kr q']|] eqn:Er; [|discriminate]. destruct (nty_eqb NReal kr) eqn:Ek; [|discriminate].
  apply nty_eqb_eq in Ek. subst kr. cbn in Hg. inversion Hg; subst. apply Qeq_bool_iff.
  rewrite (real_eval_sound _ _ _ Hx Hl), (real_eval_sound _ _ _ Hy Er). exact Hxy.
Qed.

(* the kind assigned by the standard meaning is the syntactic type *)
Lemma nty_of_ty : forall T k, nty_of T = Some k -> T = ty_of_nty k.
Proof.
  intros T k H. unfold nty_of in H.
  destruct (ty_eqb T NatT) eqn:E1; [apply ty_eqb_eq in E1; inversion H; subst; reflexivity|].
  destruct (ty_eqb T IntT) eqn:E2; [apply ty_eqb_eq in E2; inversion H; subst; reflexivity|].
  destruct (ty_eqb T RealT) eqn:E3; [apply ty_eqb_eq in E3; inversion H; subst; reflexivity | discriminate].
Qed.

Lemma get_type_app1 : forall n A B a, get_type (Comb (Const n (TFun A B)) a) = Some B.
Proof. reflexivity. Qed.
Lemma get_type_app2 : forall n A B C a b, get_type (Comb (Comb (Const n (TFun A (TFun B C))) a) b) = Some C.
Proof. reflexivity. Qed.

Lemma sem_type : forall t k q, sem t = Some (k, q) -> get_type t = Some (ty_of_nty k).
Proof.
  intros t k q H. destruct t as [| |n T|f b| |]; try discriminate.
  - cbn [sem] in H. destruct (nty_of T) as [k'|] eqn:E; [|discriminate]. apply nty_of_ty in E.
    assert (k' = k) by (caseb H; inversion H; reflexivity). subst. reflexivity.
  - destruct f as [| |n T|g a| |]; try discriminate.
    + cbn [sem] in H. destruct (sem b) as [[kb x]|]; [|discriminate].
      repeat match type of H with
             | (if String.eqb ?s ?l then _ else _) = _ => destruct (String.eqb s l)
             end;
      repeat match type of H with
             | (if ?c then _ else _) = _ => destruct c eqn:?; try discriminate
             | match ?x with _ => _ end = _ => destruct x eqn:?; try discriminate
             end;
      inversion H; subst;
      repeat match goal with
             | Hc : (_ && _) = true |- _ => apply andb_true_iff in Hc; destruct Hc
             | Hc : is_fun1 _ _ _ = true |- _ => unfold is_fun1 in Hc; apply ty_eqb_eq in Hc; subst
             | Hc : nty_eqb _ _ = true |- _ => apply nty_eqb_eq in Hc; subst
             | Hc : nty_of _ = Some _ |- _ => apply nty_of_ty in Hc; subst
             end; try reflexivity.
    + destruct g as [| |n T| | |]; try discriminate.
      cbn [sem] in H. destruct (sem a) as [[ka x]|]; [|discriminate]. destruct (sem b) as [[kb y]|]; [|discriminate].
      repeat match type of H with
             | (if String.eqb ?s ?l then _ else _) = _ => destruct (String.eqb s l)
             end;
      repeat match type of H with
             | (if ?c then _ else _) = _ => destruct c eqn:?; try discriminate
             | match ?x with _ => _ end = _ => destruct x eqn:?; try discriminate
             end;
      inversion H; subst;
      repeat match goal with
             | Hc : (_ && _) = true |- _ => apply andb_true_iff in Hc; destruct Hc
             | Hc : is_fun2 _ _ _ _ = true |- _ => unfold is_fun2 in Hc; apply ty_eqb_eq in Hc; subst
             | Hc : nty_eqb _ _ = true |- _ => apply nty_eqb_eq in Hc; subst
             end; try reflexivity.
Qed.

Lemma typed_as_kind : forall k t k' q, typed_as (ty_of_nty k) t = true -> sem t = Some (k', q) -> k' = k.
Proof.
  intros k t k' q H Hs. unfold typed_as in H. rewrite (sem_type _ _ _ Hs) in H. apply ty_eqb_eq in H.
  destruct k, k'; cbn in H; try reflexivity; discriminate.
Qed.

Lemma guard_kind : forall k goal l r b, eq_sides goal = Some (l, r) -> typed_as (ty_of_nty k) l = true ->
  sem_goal goal = Some b -> exists q, sem l = Some (k, q).
Proof.
  intros k goal l r b E Ht Hg. rewrite (sem_goal_eq _ _ _ E) in Hg.
  destruct (sem l) as [[kl x]|] eqn:El; [|discriminate]. rewrite (typed_as_kind k l kl x Ht El). eauto.
Qed.

(* Final form: whenever the (guarded) macro accepts a goal that has a standard
   meaning at all, the goal is true under that meaning. *)
Theorem nat_eval_macro_true : forall goal b, acc_nat_eval true goal = true -> sem_goal goal = Some b -> b = true.
Proof.
  intros goal b H Hg. eapply nat_eval_macro_sound; eauto. intros l r E.
  unfold acc_nat_eval in H. rewrite E in H. apply andb_true_iff in H. destruct H as [H _]. cbn in H.
  eapply (guard_kind NNat); eauto.
Qed.

Theorem int_eval_macro_true : forall goal b, acc_int_eval true goal = true -> sem_goal goal = Some b -> b = true.
Proof.
  intros goal b H Hg. eapply int_eval_macro_sound; eauto. intros l r E.
  unfold acc_int_eval in H. rewrite E in H. apply andb_true_iff in H. destruct H as [H _]. cbn in H.
  eapply (guard_kind NInt); eauto.
Qed.

Theorem real_eval_macro_true : forall goal b, acc_real_eval true goal = true -> sem_goal goal = Some b -> b = true.
Proof.
  intros goal b H Hg. eapply real_eval_macro_sound; eauto. intros l r E.
  unfold acc_real_eval in H. rewrite E in H. apply andb_true_iff in H. destruct H as [H _]. cbn in H.
  eapply (guard_kind NReal); eauto.
Qed.
