(* FoSimpSound.v — simplify keeps the truth value under every valuation of the atoms, and its
   result is true, false, or free of both constants. *)
From Coq Require Import List Bool String.
Import ListNotations.
From HolpyV Require Import Kernel FoSimp.

Lemma is_true_eq : forall f, is_true f = true -> f = STrue.
Proof. intros f H; destruct f; try discriminate H; reflexivity. Qed.
Lemma is_false_eq : forall f, is_false f = true -> f = SFalse.
Proof. intros f H; destruct f; try discriminate H; reflexivity. Qed.

Lemma simplify1_sem : forall v f, seval v (simplify1 f) = seval v f.
Proof.
  intros v f. destruct f as [t| | |a|a b|a b|a b|a b]; try reflexivity; cbn [simplify1].
  - destruct (is_false a) eqn:Fa; [apply is_false_eq in Fa; subst a; reflexivity|].
    destruct (is_true a) eqn:Ta; [apply is_true_eq in Ta; subst a; reflexivity|].
    destruct a; try reflexivity. cbn [seval]. rewrite negb_involutive. reflexivity.
  - destruct (is_false a) eqn:Fa; [apply is_false_eq in Fa; subst a; reflexivity|].
    destruct (is_false b) eqn:Fb; [apply is_false_eq in Fb; subst b; cbn; rewrite andb_false_r; reflexivity|].
    cbn [orb]. destruct (is_true a) eqn:Ta; [apply is_true_eq in Ta; subst a; reflexivity|].
    destruct (is_true b) eqn:Tb; [apply is_true_eq in Tb; subst b; cbn; rewrite andb_true_r; reflexivity|].
    reflexivity.
  - destruct (is_true a) eqn:Ta; [apply is_true_eq in Ta; subst a; reflexivity|].
    destruct (is_true b) eqn:Tb; [apply is_true_eq in Tb; subst b; cbn; rewrite orb_true_r; reflexivity|].
    cbn [orb]. destruct (is_false a) eqn:Fa; [apply is_false_eq in Fa; subst a; reflexivity|].
    destruct (is_false b) eqn:Fb; [apply is_false_eq in Fb; subst b; cbn; rewrite orb_false_r; reflexivity|].
    reflexivity.
  - destruct (is_false a) eqn:Fa; [apply is_false_eq in Fa; subst a; reflexivity|].
    destruct (is_true b) eqn:Tb; [apply is_true_eq in Tb; subst b; cbn; destruct (seval v a); reflexivity|].
    cbn [orb]. destruct (is_true a) eqn:Ta; [apply is_true_eq in Ta; subst a; reflexivity|].
    destruct (is_false b) eqn:Fb; [apply is_false_eq in Fb; subst b; cbn; destruct (seval v a); reflexivity|].
    reflexivity.
  - destruct (is_true a) eqn:Ta; [apply is_true_eq in Ta; subst a; cbn; destruct (seval v b); reflexivity|].
    destruct (is_true b) eqn:Tb; [apply is_true_eq in Tb; subst b; cbn; destruct (seval v a); reflexivity|].
    destruct (is_false a) eqn:Fa; [apply is_false_eq in Fa; subst a; cbn; destruct (seval v b); reflexivity|].
    destruct (is_false b) eqn:Fb; [apply is_false_eq in Fb; subst b; cbn; destruct (seval v a); reflexivity|].
    reflexivity.
Qed.

Theorem simplify_sem : forall v f, seval v (simplify f) = seval v f.
Proof.
  intros v f; induction f as [t| | |a IHa|a IHa b IHb|a IHa b IHb|a IHa b IHb|a IHa b IHb]; cbn [simplify]; try reflexivity;
    rewrite simplify1_sem; cbn [seval]; rewrite ?IHa, ?IHb; reflexivity.
Qed.

Definition reduced (f : sform) : Prop := f = STrue \/ f = SFalse \/ const_free f = true.

(* the result is NOT always free of constants: false = false becomes ~false (the step from an
   equation with false on one side to a negation is not simplified again); the meaning is unaffected *)
Theorem simplify_reduced_refuted : exists f, ~ reduced (simplify f).
Proof.
  exists (SIff SFalse SFalse). cbn. intros [H|[H|H]]; discriminate H.
Qed.

(* the seeded variant: false = q becomes ~false *)
Definition simplify1_bad (f : sform) : sform :=
  match f with SIff a b => if is_false a then SNot a else simplify1 f | _ => simplify1 f end.
Theorem simplify1_bad_refuted : exists v f, seval v (simplify1_bad f) <> seval v f.
Proof. exists (fun _ => true), (SIff SFalse (SAtom (Var "P"%string BoolT))). vm_compute. discriminate. Qed.
