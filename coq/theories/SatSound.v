(* SatSound.v — partial correctness of the solver model (satisfiable answers) and
   soundness of the resolution-trace checker (unsatisfiable answers). *)
From Coq Require Import List String Bool Arith Lia.
Import ListNotations.
From HolpyV Require Import Sat.
Open Scope string_scope.
Open Scope list_scope.
Open Scope nat_scope.

Lemma lit_eqb_eq : forall a b, lit_eqb a b = true <-> a = b.
Proof.
  intros [x p] [y q]. unfold lit_eqb. cbn. rewrite andb_true_iff, String.eqb_eq, Bool.eqb_true_iff.
  split; [intros [-> ->]; reflexivity | intros E; inversion E; auto].
Qed.

Lemma mem_lit_in : forall l c, mem_lit l c = true <-> In l c.
Proof.
  intros l c. unfold mem_lit. rewrite existsb_exists. split.
  - intros [x [Hin He]]. apply lit_eqb_eq in He. subst. exact Hin.
  - intros H. exists l. split; [exact H | apply lit_eqb_eq; reflexivity].
Qed.

Lemma in_dedup_lits : forall c l, In l (dedup_lits c) <-> In l c.
Proof.
  induction c as [|m c IH]; intros l; cbn [dedup_lits]; [tauto|]. cbn [In]. rewrite filter_In, IH.
  split.
  - intros [H | [H _]]; auto.
  - intros [H | H]; [auto|]. destruct (lit_eqb m l) eqn:E.
    + apply lit_eqb_eq in E. auto.
    + right. split; [exact H | reflexivity].
Qed.

(* ---------------- satisfiable answers ---------------- *)

Definition lit_sat (a : assigns) (l : lit) : Prop :=
  exists i, alookup (fst l) a = Some i /\ a_val i = snd l.
Definition clause_sat (a : assigns) (c : clause) : Prop := exists l, In l c /\ lit_sat a l.

Lemma clause_status_sat : forall a c un, clause_status a c un = CSat -> clause_sat a c.
Proof.
  induction c as [|[n v] c IH]; intros un H; cbn [clause_status] in H; [discriminate|].
  destruct (alookup n a) as [i|] eqn:E.
  - destruct (Bool.eqb v (a_val i)) eqn:Ev.
    + apply Bool.eqb_prop in Ev. exists (n, v). split; [left; reflexivity|]. exists i. cbn. auto.
    + destruct (IH _ H) as [l [Hin Hs]]. exists l. split; [right; exact Hin | exact Hs].
  - destruct (IH _ H) as [l [Hin Hs]]. exists l. split; [right; exact Hin | exact Hs].
Qed.

Lemma scan_done : forall f id a hu, scan f id a hu = SDone false -> hu = false /\ forall c, In c f -> clause_sat a c.
Proof.
  induction f as [|c f IH]; intros id a hu H; cbn [scan] in H.
  - inversion H. split; [reflexivity | intros c []].
  - destruct (clause_status a c []) as [|un] eqn:E.
    + destruct (IH _ _ _ H) as [H1 H2]. split; [exact H1|]. intros c' [<- | Hin]; [eapply clause_status_sat; eauto | auto].
    + destruct un as [|l [|l2 un]]; try discriminate. destruct (IH _ _ _ H) as [H1 _]. discriminate.
Qed.

Lemma unit_propagate_sat : forall fuel f a level a', unit_propagate fuel f a level = (PSat, a') ->
  forall c, In c f -> clause_sat a' c.
Proof.
  induction fuel as [|fu IH]; intros f a level a' H; cbn [unit_propagate] in H; [discriminate|].
  destruct (scan f 0 a false) as [[|]|id|[n v] id] eqn:E; try discriminate.
  - inversion H; subst. apply scan_done in E. tauto.
  - eapply IH; eauto.
Qed.

Definition allsat (f : cnf) (a : assigns) : Prop := forall c, In c f -> clause_sat a c.

Lemma main_loop_sat : forall fuel f a level proofs vars orc pr asg f',
  (pr = PSat -> allsat f a) ->
  main_loop fuel f a level proofs vars orc pr = (RSat asg, f') ->
  exists a_fin l, allsat (f ++ l) a_fin /\ asg = map (fun p => (fst p, a_val (snd p))) a_fin.
Proof.
  induction fuel as [|fu IH]; intros f a level proofs vars orc pr asg f' Hpr H; cbn [main_loop] in H; [discriminate|].
  destruct pr as [| |id|].
  - inversion H; subst. exists a, []. rewrite app_nil_r. auto.
  - match type of H with context [unit_propagate ?x ?y ?z ?w] =>
      destruct (unit_propagate x y z w) as [pr' a''] eqn:Eu end.
    eapply IH; [|exact H]. intros ->. intros c Hc. eapply unit_propagate_sat; eauto.
  - destruct (nth_error f id) as [c0|]; [|discriminate].
    destruct (analyze (100 + 4 * List.length a * List.length a) f a c0 [id] orc) as [[[proof c] orc']|]; [|discriminate].
    destruct c as [|l0 c]; [discriminate|].
    destruct (backtrack_level a (l0 :: c)) as [bl|]; [|discriminate].
    match type of H with context [unit_propagate ?x ?y ?z ?w] =>
      destruct (unit_propagate x y z w) as [pr' a''] eqn:Eu end.
    assert (Hpr' : pr' = PSat -> allsat (f ++ [l0 :: c]) a'')
      by (intros ->; intros c' Hc'; eapply unit_propagate_sat; eauto).
    destruct (IH _ _ _ _ _ _ _ _ _ Hpr' H) as [a_fin [l [Hall ->]]].
    exists a_fin, ([l0 :: c] ++ l). rewrite app_assoc. auto.
  - discriminate.
Qed.

Lemma alookup_map_val : forall n (a : assigns),
  alookup n (map (fun p => (fst p, a_val (snd p))) a) = option_map a_val (alookup n a).
Proof.
  induction a as [|[k i] a IH]; cbn; [reflexivity|]. destruct (String.eqb n k); [reflexivity | exact IH].
Qed.

Lemma allsat_is_solution : forall f a, allsat f a -> is_solution f (map (fun p => (fst p, a_val (snd p))) a) = true.
Proof.
  intros f a H. unfold is_solution. apply forallb_forall. intros c Hc. destruct (H c Hc) as [l [Hin [i [Hi Hv]]]].
  apply existsb_exists. exists l. split; [exact Hin|]. rewrite alookup_map_val, Hi. cbn. rewrite Hv. apply Bool.eqb_reflx.
Qed.

Lemma is_solution_dedup : forall f asg, is_solution (map dedup_lits f) asg = true -> is_solution f asg = true.
Proof.
  intros f asg H. unfold is_solution in *. rewrite forallb_forall in *. intros c Hc.
  specialize (H (dedup_lits c) (in_map _ _ _ Hc)). rewrite existsb_exists in *.
  destruct H as [l [Hin Hl]]. exists l. split; [apply in_dedup_lits; exact Hin | exact Hl].
Qed.

(* a 'satisfiable' answer of the model carries an assignment satisfying every input clause *)
Theorem solve_sat_sound : forall fx fuel f vars orc asg f',
  solve_cnf fx fuel f vars orc = (RSat asg, f') -> is_solution f asg = true.
Proof.
  intros fx fuel f vars orc asg f' H. unfold solve_cnf in H.
  set (f0 := if fx then map dedup_lits f else f) in *.
  destruct (unit_propagate (S (List.length vars)) f0 [] 0) as [pr a] eqn:Eu.
  assert (Hpr : pr = PSat -> allsat f0 a) by (intros ->; intros c Hc; eapply unit_propagate_sat; eauto).
  destruct (main_loop_sat _ _ _ _ _ _ _ _ _ _ Hpr H) as [a_fin [l [Hall ->]]].
  assert (H0 : is_solution f0 (map (fun p => (fst p, a_val (snd p))) a_fin) = true).
  { apply allsat_is_solution. intros c Hc. apply Hall. apply in_or_app. left. exact Hc. }
  unfold f0 in H0. destruct fx; [apply is_solution_dedup; exact H0 | exact H0].
Qed.

(* is_solution really means satisfaction under any total extension of the assignment *)
Theorem is_solution_model : forall f asg, is_solution f asg = true -> is_model (val_of asg) f = true.
Proof.
  intros f asg H. unfold is_solution, is_model in *. rewrite forallb_forall in *. intros c Hc.
  specialize (H c Hc). unfold clause_true. rewrite existsb_exists in *. destruct H as [l [Hin Hl]].
  exists l. split; [exact Hin|]. unfold lit_true, val_of. destruct (alookup (fst l) asg); [exact Hl | discriminate].
Qed.

(* ---------------- unsatisfiable answers: the trace checker ---------------- *)

Lemma in_remove_name : forall n c l, In l (remove_name n c) <-> In l c /\ fst l <> n.
Proof.
  intros n c l. unfold remove_name. rewrite filter_In. rewrite negb_true_iff. split.
  - intros [H E]. split; [exact H|]. intro Hn. subst. rewrite String.eqb_refl in E. discriminate.
  - intros [H E]. split; [exact H|]. apply String.eqb_neq. exact E.
Qed.

Lemma resolve_chk_sound : forall v c d r, resolve_chk c d = Some r ->
  clause_true v c = true -> clause_true v d = true -> clause_true v r = true.
Proof.
  intros v c d r H Hc Hd. unfold resolve_chk, find_pivot in H.
  match type of H with context [find ?p c] => destruct (find p c) as [[x b]|] eqn:Ef end; [|discriminate].
  cbn [fst] in H. inversion H; subst r. clear H.
  apply find_some in Ef. destruct Ef as [Hin Hp]. cbn [fst snd] in Hp.
  apply andb_true_iff in Hp. destruct Hp as [Hp H3]. apply andb_true_iff in Hp. destruct Hp as [H1 H2].
  apply negb_true_iff in H2. apply negb_true_iff in H3.
  unfold clause_true in *. rewrite existsb_exists in *.
  destruct (Bool.eqb (v x) b) eqn:Evx.
  - (* v x = b: the true literal of d is not on x *)
    destruct Hd as [m [Hm Ht]]. exists m. split; [|exact Ht].
    apply in_dedup_lits. apply in_or_app. right. apply in_remove_name. split; [exact Hm|].
    intro E. destruct m as [y q]. cbn in E. subst y. unfold lit_true in Ht. cbn in Ht.
    apply Bool.eqb_prop in Evx. apply Bool.eqb_prop in Ht. subst.
    assert (mem_lit (x, v x) d = true) by (apply mem_lit_in; exact Hm). congruence.
  - destruct Hc as [m [Hm Ht]]. exists m. split; [|exact Ht].
    apply in_dedup_lits. apply in_or_app. left. apply in_remove_name. split; [exact Hm|].
    intro E. destruct m as [y q]. cbn in E. subst y. unfold lit_true in Ht. cbn in Ht.
    apply Bool.eqb_prop in Ht. subst q.
    assert (Hq : v x = negb b) by (destruct (v x), b; cbn in Evx; try discriminate; reflexivity).
    rewrite Hq in Hm. assert (mem_lit (x, negb b) c = true) by (apply mem_lit_in; exact Hm). congruence.
Qed.

Lemma chain_sound : forall v db ids c r, (forall d, In d db -> clause_true v d = true) ->
  clause_true v c = true -> chain db c ids = Some r -> clause_true v r = true.
Proof.
  intros v db. induction ids as [|i rest IH]; intros c r Hdb Hc H; cbn [chain] in H.
  - inversion H; subst. exact Hc.
  - destruct (nth_error db i) as [d|] eqn:En; [|discriminate].
    destruct (resolve_chk c d) as [c'|] eqn:Er; [|discriminate].
    apply (IH c' r Hdb); [|exact H]. eapply resolve_chk_sound; eauto. apply Hdb. eapply nth_error_In; eauto.
Qed.

Lemma check_trace_from_sound : forall v proofs db last,
  (forall d, In d db -> clause_true v d = true) ->
  (forall c, last = Some c -> clause_true v c = true) ->
  check_trace_from db proofs last = true -> False.
Proof.
  intros v. induction proofs as [|[id ids] rest IH]; intros db last Hdb Hlast H; cbn [check_trace_from] in H.
  - destruct last as [[|l c]|]; try discriminate. specialize (Hlast [] eq_refl). discriminate.
  - destruct (negb (Nat.eqb id (List.length db))); [discriminate|].
    destruct ids as [|i0 ids']; [discriminate|].
    destruct (nth_error db i0) as [c0|] eqn:E0; [|discriminate].
    destruct (chain db c0 ids') as [c|] eqn:Ec; [|discriminate].
    assert (Hc : clause_true v c = true).
    { eapply chain_sound; eauto. apply Hdb. eapply nth_error_In; eauto. }
    apply (IH (db ++ [c]) (Some c)); [| |exact H].
    + intros d Hd. apply in_app_or in Hd. destruct Hd as [Hd | [<- | []]]; auto.
    + intros c' E. inversion E; subst. exact Hc.
Qed.

(* a trace accepted by the checker proves that the clause set has no model *)
Theorem check_trace_sound : forall f proofs, check_trace f proofs = true -> forall v, is_model v f = false.
Proof.
  intros f proofs H v. destruct (is_model v f) eqn:E; [|reflexivity]. exfalso.
  unfold is_model in E. rewrite forallb_forall in E.
  eapply (check_trace_from_sound v proofs f None); eauto. intros c Hc. discriminate.
Qed.
