(* C03Lib.v — glue evaluated by the generated C03 case files (definitions only). *)
From Coq Require Import List String Bool Arith.
Import ListNotations.
From HolpyV Require Import Kernel Sem Falsify HarnessLib TermOrd.
Open Scope string_scope.
Open Scope list_scope.
Open Scope nat_scope.

(* ==, hash-key equality and the ordering of one pair, packed in one code:
   100 * [s == t] + 10 * [hkey s = hkey t] + cmp_code, offset by 1000 *)
Definition case_pair (s t : tm) : nat :=
  1000 + (if tm_eqb s t then 100 else 0) + (if hk_eqb (hkey s) (hkey t) then 10 else 0) + cmp_code (tm_cmp s t).

Definition case_ty_pair (A B : ty) : nat :=
  1000 + (if ty_eqb A B then 100 else 0) + cmp_code (ty_cmp A B).

Definition opt_tm_eqb_names (a b : option tm) : bool :=
  match a, b with
  | Some x, Some y => tm_eqb_names x y
  | None, None => true
  | _, _ => false
  end.

(* operations: 1 = identical (bound names too), 2 = equal up to bound names only, 0 = differs *)
Definition cmp_result (m e : option tm) : nat :=
  if opt_tm_eqb_names m e then 1 else if opt_tm_eqb m e then 2 else 0.

Definition case_subst_type (s : tyinst) (t : tm) (e : option tm) : nat :=
  cmp_result (Some (tm_subst_type s t)) e.
Definition case_subst_bound (abs t : tm) (e : option tm) : nat :=
  cmp_result (subst_bound abs t) e.
Definition case_incr (t : tm) (inc : nat) (e : option tm) : nat :=
  cmp_result (Some (incr_boundvars t inc)) e.
Definition case_beta_norm (t : tm) (e : option tm) : nat :=
  match beta_norm 400 t with
  | Some r => cmp_result (Some r) e
  | None => 3      (* fuel exhausted: not comparable *)
  end.
Definition case_abstract (t x : tm) (e : option tm) : nat :=
  cmp_result (abstract_over t x) e.
Definition case_lambda (x t : tm) (e : option tm) : nat :=
  cmp_result (mk_lambda x t) e.
Definition case_typed (t : tm) (e : option ty) : nat :=
  if opt_ty_eqb (checked_get_type t) e then 1 else 0.
Definition case_get_type (t : tm) (e : option ty) : nat :=
  if opt_ty_eqb (get_type t) e then 1 else 0.
Definition case_is_open (t : tm) (e : bool) : nat :=
  if Bool.eqb (is_open t) e then 1 else 0.
Definition case_occurs (s x : tm) (e : bool) : nat :=
  if Bool.eqb (occurs_var true s x) e then 1 else 0.
Definition case_tm_subst (I : inst) (t : tm) (e : option tm) : nat :=
  match tm_subst true true I (i_ty I) t with
  | Some (r, _) => cmp_result (Some r) e
  | None => cmp_result None e
  end.
