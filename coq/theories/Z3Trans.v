(* Z3Trans.v — model of the translation of prover/z3wrapper.py convert() on the
   integer / natural-number fragment (linear and non-linear arithmetic,
   truncated natural subtraction, propositional structure, quantifiers over nat
   and int), with the HOL meaning of the source and the integer meaning of the
   target.  [fx] selects the repaired treatment of nat binders. *)
From Coq Require Import List String Bool ZArith Lia.
Import ListNotations.
Open Scope string_scope.
Open Scope Z_scope.

Inductive sort := SNat | SInt.

(* source: HOL terms of the fragment *)
Inductive hexp :=
| HVar (n : string)
| HNum (z : Z)
| HAdd (a b : hexp)
| HSub (s : sort) (a b : hexp)       (* on nat: truncated *)
| HMul (a b : hexp).

Inductive hform :=
| HTrue | HFalse
| HLe (a b : hexp) | HLt (a b : hexp) | HEq (a b : hexp)
| HNot (f : hform) | HAnd (f g : hform) | HOr (f g : hform) | HImp (f g : hform)
| HAll (s : sort) (x : string) (f : hform)
| HEx (s : sort) (x : string) (f : hform).

(* target: what is handed to the solver (integers only) *)
Inductive zexp :=
| ZVar (n : string)
| ZNum (z : Z)
| ZAdd (a b : zexp)
| ZSub (a b : zexp)
| ZMul (a b : zexp)
| ZIteGe (a b x y : zexp).            (* If(a >= b, x, y) *)

Inductive zform :=
| ZTrue | ZFalse
| ZLe (a b : zexp) | ZLt (a b : zexp) | ZEq (a b : zexp)
| ZNot (f : zform) | ZAnd (f g : zform) | ZOr (f g : zform) | ZImp (f g : zform)
| ZAll (x : string) (f : zform)
| ZEx (x : string) (f : zform).

Definition env := string -> Z.
Definition upd (e : env) (x : string) (v : Z) : env := fun y => if String.eqb x y then v else e y.

(* HOL meaning *)
Fixpoint hsem_e (e : env) (t : hexp) : Z :=
  match t with
  | HVar n => e n
  | HNum z => z
  | HAdd a b => hsem_e e a + hsem_e e b
  | HSub SNat a b => Z.max 0 (hsem_e e a - hsem_e e b)
  | HSub SInt a b => hsem_e e a - hsem_e e b
  | HMul a b => hsem_e e a * hsem_e e b
  end.

Fixpoint hsem (e : env) (f : hform) : Prop :=
  match f with
  | HTrue => True | HFalse => False
  | HLe a b => hsem_e e a <= hsem_e e b
  | HLt a b => hsem_e e a < hsem_e e b
  | HEq a b => hsem_e e a = hsem_e e b
  | HNot g => ~ hsem e g
  | HAnd g h => hsem e g /\ hsem e h
  | HOr g h => hsem e g \/ hsem e h
  | HImp g h => hsem e g -> hsem e h
  | HAll SNat x g => forall v, 0 <= v -> hsem (upd e x v) g      (* naturals only *)
  | HAll SInt x g => forall v, hsem (upd e x v) g
  | HEx SNat x g => exists v, 0 <= v /\ hsem (upd e x v) g
  | HEx SInt x g => exists v, hsem (upd e x v) g
  end.

(* integer meaning of the target *)
Fixpoint zsem_e (e : env) (t : zexp) : Z :=
  match t with
  | ZVar n => e n
  | ZNum z => z
  | ZAdd a b => zsem_e e a + zsem_e e b
  | ZSub a b => zsem_e e a - zsem_e e b
  | ZMul a b => zsem_e e a * zsem_e e b
  | ZIteGe a b x y => if Z.geb (zsem_e e a) (zsem_e e b) then zsem_e e x else zsem_e e y
  end.

Fixpoint zsem (e : env) (f : zform) : Prop :=
  match f with
  | ZTrue => True | ZFalse => False
  | ZLe a b => zsem_e e a <= zsem_e e b
  | ZLt a b => zsem_e e a < zsem_e e b
  | ZEq a b => zsem_e e a = zsem_e e b
  | ZNot g => ~ zsem e g
  | ZAnd g h => zsem e g /\ zsem e h
  | ZOr g h => zsem e g \/ zsem e h
  | ZImp g h => zsem e g -> zsem e h
  | ZAll x g => forall v, zsem (upd e x v) g
  | ZEx x g => exists v, zsem (upd e x v) g
  end.

(* the translation *)
Fixpoint tr_e (t : hexp) : zexp :=
  match t with
  | HVar n => ZVar n
  | HNum z => ZNum z
  | HAdd a b => ZAdd (tr_e a) (tr_e b)
  | HSub SNat a b => ZIteGe (tr_e a) (tr_e b) (ZSub (tr_e a) (tr_e b)) (ZNum 0)
  | HSub SInt a b => ZSub (tr_e a) (tr_e b)
  | HMul a b => ZMul (tr_e a) (tr_e b)
  end.

Definition ge0 (x : string) : zform := ZLe (ZNum 0) (ZVar x).

Fixpoint tr (fx : bool) (f : hform) : zform :=
  match f with
  | HTrue => ZTrue | HFalse => ZFalse
  | HLe a b => ZLe (tr_e a) (tr_e b)
  | HLt a b => ZLt (tr_e a) (tr_e b)
  | HEq a b => ZEq (tr_e a) (tr_e b)
  | HNot g => ZNot (tr fx g)
  | HAnd g h => ZAnd (tr fx g) (tr fx h)
  | HOr g h => ZOr (tr fx g) (tr fx h)
  | HImp g h => ZImp (tr fx g) (tr fx h)
  | HAll SNat x g => if fx then ZAll x (ZImp (ge0 x) (tr fx g)) else ZAll x (tr fx g)
  | HAll SInt x g => ZAll x (tr fx g)
  | HEx SNat x g => if fx then ZEx x (ZAnd (ge0 x) (tr fx g)) else ZEx x (tr fx g)
  | HEx SInt x g => ZEx x (tr fx g)
  end.

(* ---- proofs ------------------------------------------------------------------- *)
Lemma tr_e_correct : forall t e, zsem_e e (tr_e t) = hsem_e e t.
Proof.
  induction t as [n|z|a IHa b IHb|s a IHa b IHb|a IHa b IHb]; intros e; cbn [tr_e zsem_e hsem_e]; try reflexivity.
  - rewrite IHa, IHb. reflexivity.
  - destruct s; cbn [zsem_e]; rewrite ?IHa, ?IHb; [|reflexivity].
    destruct (Z.geb (hsem_e e a) (hsem_e e b)) eqn:E.
    + rewrite Z.geb_le in E. lia.
    + assert (hsem_e e a < hsem_e e b).
      { destruct (Z_lt_le_dec (hsem_e e a) (hsem_e e b)) as [G|G]; [exact G|]. apply Z.geb_le in G. congruence. }
      cbn [zsem_e]. lia.
  - rewrite IHa, IHb. reflexivity.
Qed.

(* the repaired translation has exactly the HOL meaning, in every environment *)
Theorem tr_correct : forall f e, zsem e (tr true f) <-> hsem e f.
Proof.
  induction f as [| |a b|a b|a b|g IH|g IHg h IHh|g IHg h IHh|g IHg h IHh|s x g IH|s x g IH]; intros e; cbn [tr zsem hsem];
    rewrite ?tr_e_correct; try tauto.
  - rewrite IH. tauto.
  - rewrite IHg, IHh. tauto.
  - rewrite IHg, IHh. tauto.
  - rewrite IHg, IHh. tauto.
  - destruct s; cbn [zsem ge0 zsem_e].
    + split; intros H v.
      * intros Hv. apply IH. apply H. unfold upd. rewrite String.eqb_refl. exact Hv.
      * intros Hv. apply IH. apply H. unfold upd in Hv. rewrite String.eqb_refl in Hv. exact Hv.
    + split; intros H v; apply IH; apply H.
  - destruct s; cbn [zsem ge0 zsem_e].
    + split; intros [v H]; exists v.
      * destruct H as [Hv H]. unfold upd in Hv. rewrite String.eqb_refl in Hv. split; [exact Hv | apply IH; exact H].
      * destruct H as [Hv H]. split; [unfold upd; rewrite String.eqb_refl; exact Hv | apply IH; exact H].
    + split; intros [v H]; exists v; apply IH; exact H.
Qed.

(* what the solver is asked: premises, the negated conclusion and x >= 0 for the
   free natural-number variables are jointly unsatisfiable over the integers *)
Definition refuted (fx : bool) (nat_vars : list string) (prems : list hform) (concl : hform) : Prop :=
  forall e : env, ~ ((forall x, In x nat_vars -> 0 <= e x) /\ (forall p, In p prems -> zsem e (tr fx p)) /\ ~ zsem e (tr fx concl)).

(* ... then the goal is a consequence of the premises under the HOL meaning,
   for all values of the variables in which the natural-number variables are
   natural numbers *)
Theorem solve_sound : forall nat_vars prems concl,
  refuted true nat_vars prems concl ->
  forall e : env, (forall x, In x nat_vars -> 0 <= e x) ->
  (forall p, In p prems -> hsem e p) -> ~ ~ hsem e concl.
Proof.
  intros nat_vars prems concl R e Hn Hp Hc. apply (R e). split; [exact Hn|]. split.
  - intros p Hin. apply tr_correct. apply Hp. exact Hin.
  - intro Hz. apply Hc. apply tr_correct. exact Hz.
Qed.

(* the historical translation of a nat binder claims more than the HOL goal says *)
Theorem tr_historical_refuted :
  exists f, (forall e, zsem e (tr false f)) /\ (forall e, ~ hsem e f).
Proof.
  exists (HEx SNat "x" (HLt (HVar "x") (HNum 0))). split.
  - intros e. cbn. exists (-1). unfold upd. cbn. lia.
  - intros e [v [Hv H]]. cbn in H. unfold upd in H. cbn in H. lia.
Qed.

(* harness glue *)
Fixpoint zexp_eqb (a b : zexp) : bool :=
  match a, b with
  | ZVar n, ZVar m => String.eqb n m
  | ZNum x, ZNum y => Z.eqb x y
  | ZAdd a1 a2, ZAdd b1 b2 | ZSub a1 a2, ZSub b1 b2 | ZMul a1 a2, ZMul b1 b2 => zexp_eqb a1 b1 && zexp_eqb a2 b2
  | ZIteGe a1 a2 a3 a4, ZIteGe b1 b2 b3 b4 => zexp_eqb a1 b1 && zexp_eqb a2 b2 && zexp_eqb a3 b3 && zexp_eqb a4 b4
  | _, _ => false
  end.
Fixpoint zform_eqb (a b : zform) : bool :=
  match a, b with
  | ZTrue, ZTrue | ZFalse, ZFalse => true
  | ZLe a1 a2, ZLe b1 b2 | ZLt a1 a2, ZLt b1 b2 | ZEq a1 a2, ZEq b1 b2 => zexp_eqb a1 b1 && zexp_eqb a2 b2
  | ZNot f, ZNot g => zform_eqb f g
  | ZAnd f1 f2, ZAnd g1 g2 | ZOr f1 f2, ZOr g1 g2 | ZImp f1 f2, ZImp g1 g2 => zform_eqb f1 g1 && zform_eqb f2 g2
  | ZAll x f, ZAll y g | ZEx x f, ZEx y g => String.eqb x y && zform_eqb f g
  | _, _ => false
  end.
Definition case_tr (fx : bool) (f : hform) (impl : zform) : nat := if zform_eqb (tr fx f) impl then 1%nat else 0%nat.
