(* Props_C14.v — property theorems for C14 (the mechanism shared by the
   tactic-based methods: ProofState.apply_tactic splices the tactic's exported
   proof by add_line_before followed by overwriting the inserted lines). *)
From Coq Require Import List String Bool Arith.
Import ListNotations.
From HolpyV Require Import Kernel Check Edit EditGaps.

(* Inserting lines (with the renumbering of everything after them) neither
   creates nor removes an open gap, at any nesting depth. *)
Theorem C14_add_line_gaps : forall root id n r, add_line_before root id n = Some r -> gaps_list r = gaps_list root.
Proof. exact add_line_gaps. Qed.
Print Assumptions C14_add_line_gaps.

(* Overwriting a line changes the list of open gaps exactly by the gaps of the
   old and of the new line: so after a splice the open gaps are the previous
   ones other than the goal, plus the gaps of the tactic's proof term — the ones
   the suggestion advertised (`_goal` = pt.gaps). *)
Theorem C14_set_line_gaps : forall root id it r, set_line root id it = Some r ->
  exists old pre post, gaps_list root = pre ++ gaps_item old ++ post /\ gaps_list r = pre ++ gaps_item it ++ post.
Proof. exact set_line_gaps. Qed.
Print Assumptions C14_set_line_gaps.

(* Renumbering and citation replacement never touch a rule or a statement. *)
Theorem C14_renumber_keeps_gaps : forall s n it, gaps_item (incr_item it s n) = gaps_item it.
Proof. exact incr_item_gaps. Qed.
Print Assumptions C14_renumber_keeps_gaps.
