(* MacroTrust.v — trusting macro evaluations that are backed by level-0
   derivations loses nothing (C04): if every evaluation a derivation uses at trust
   level L proves something derivable at level 0 (which is what "the expansion
   checks and proves what the evaluation claims" gives, through check_sound),
   then everything derivable at level L is derivable at level 0. *)
From Coq Require Import List String Bool Arith Lia.
Import ListNotations.
From HolpyV Require Import Kernel KernelLemmas Check CheckSound.

Section Trust.
Variable kfx : fixes.
Variable thy : string -> option thm.
Variable macros : string -> option macro.

Notation Good0 := (Good kfx thy macros 0).

(* every evaluation of a macro trusted at level L, on premises derivable at level
   0, returns a sequent derivable at level 0 *)
Definition validated (L : nat) : Prop :=
  forall rule m l args prems r,
    macros rule = Some m -> m_level m = Some l -> l <= L ->
    Forall Good0 prems -> m_eval m args prems = Some r -> Good0 r.

(* induction principle for Good that goes through the premises *)
Section GoodInd.
Variable L : nat.
Variable P : thm -> Prop.
Hypothesis Hprim : forall rule args prems r s,
  Forall (Good kfx thy macros L) prems -> Forall P prems -> apply_prim kfx rule args prems = Some r ->
  can_prove r s = true -> check_thm_type s = true -> P s.
Hypothesis Hthy : forall n r s, thy n = Some r -> can_prove r s = true -> check_thm_type s = true -> P s.
Hypothesis Hvar : forall n T s, can_prove (r_mk_VAR n T) s = true -> check_thm_type s = true -> P s.
Hypothesis Hmacro : forall rule m l args prems r s,
  macros rule = Some m -> m_level m = Some l -> l <= L ->
  Forall (Good kfx thy macros L) prems -> Forall P prems -> m_eval m args prems = Some r ->
  can_prove r s = true -> check_thm_type s = true -> P s.
Hypothesis Hweak : forall r s, Good kfx thy macros L r -> P r -> can_prove r s = true -> check_thm_type s = true -> P s.

Fixpoint Good_ind' (t : thm) (g : Good kfx thy macros L t) {struct g} : P t :=
  match g in Good _ _ _ _ t0 return P t0 with
  | G_prim _ _ _ _ rule args prems r s Hp Ha Hc Ht =>
      Hprim rule args prems r s Hp
        ((fix go (l : list thm) (f : Forall (Good kfx thy macros L) l) {struct f} : Forall P l :=
            match f in Forall _ l0 return Forall P l0 with
            | Forall_nil _ => Forall_nil P
            | Forall_cons x hx ft => Forall_cons x (Good_ind' x hx) (go _ ft)
            end) prems Hp) Ha Hc Ht
  | G_thy _ _ _ _ n r s H1 H2 H3 => Hthy n r s H1 H2 H3
  | G_var _ _ _ _ n T s H1 H2 => Hvar n T s H1 H2
  | G_macro _ _ _ _ rule m l args prems r s H1 H2 H3 Hp H5 H6 H7 =>
      Hmacro rule m l args prems r s H1 H2 H3 Hp
        ((fix go (l0 : list thm) (f : Forall (Good kfx thy macros L) l0) {struct f} : Forall P l0 :=
            match f in Forall _ l1 return Forall P l1 with
            | Forall_nil _ => Forall_nil P
            | Forall_cons x hx ft => Forall_cons x (Good_ind' x hx) (go _ ft)
            end) prems Hp) H5 H6 H7
  | G_weaken _ _ _ _ r s Hr H2 H3 => Hweak r s Hr (Good_ind' r Hr) H2 H3
  end.
End GoodInd.

Theorem trust_level_conservative : forall L, validated L -> forall th, Good kfx thy macros L th -> Good0 th.
Proof.
  intros L HV th g. apply (Good_ind' L (fun t => Good0 t)) with (t := th); [| | | | |exact g].
  - intros rule args prems r s _ Hp Ha Hc Ht. eapply G_prim; eauto.
  - intros n r s H1 H2 H3. eapply G_thy; eauto.
  - intros n T s H1 H2. eapply G_var; eauto.
  - intros rule m l args prems r s H1 H2 H3 _ Hp H5 H6 H7. eapply G_weaken; [|eassumption|assumption]. eapply HV; eauto.
  - intros r s _ Hr H2 H3. eapply G_weaken; eauto.
Qed.
End Trust.
