(* ProdSimpSound.v — the acceptance test of prod_simplify is sound over every commutative ring of
   numerals (instances: Z and Qc), and the variant that compares the non-numeral factors as sets
   is not. *)
From Coq Require Import List Bool ZArith QArith Qcanon Lia.
Import ListNotations.
From HolpyV Require Import ProdSimp.

Section ProdSound.
Variable R : Type.
Variable rmul : R -> R -> R.
Variable r0 r1 : R.
Variable reqb : R -> R -> bool.
Hypothesis Hcomm : forall a b, rmul a b = rmul b a.
Hypothesis Hassoc : forall a b c, rmul a (rmul b c) = rmul (rmul a b) c.
Hypothesis H1 : forall a, rmul r1 a = a.
Hypothesis H0 : forall a, rmul r0 a = r0.
Hypothesis Heqb : forall a b, reqb a b = true -> a = b.

Notation pexp := (@pexp R).
Notation fac := (fac R).
Notation strip := (strip R).
Notation peval := (peval R rmul).
Notation consts := (consts R).
Notation atoms := (atoms R).
Notation rprod := (rprod R rmul r1).

Definition fv (v : nat -> R) (f : fac) : R := match f with inl c => c | inr a => v a end.
Definition facprod (v : nat -> R) (l : list fac) : R := fold_right (fun f acc => rmul (fv v f) acc) r1 l.
Definition aprod (v : nat -> R) (l : list nat) : R := fold_right (fun a acc => rmul (v a) acc) r1 l.

Lemma H1r : forall a, rmul a r1 = a.
Proof. intros a. rewrite Hcomm. apply H1. Qed.

Lemma facprod_app : forall v l m, facprod v (l ++ m) = rmul (facprod v l) (facprod v m).
Proof.
  intros v l m; induction l as [|f l IH]; cbn [app facprod fold_right].
  - rewrite H1. reflexivity.
  - fold (facprod v (l ++ m)). fold (facprod v l). rewrite IH. apply Hassoc.
Qed.

Lemma peval_strip : forall v e, peval v e = facprod v (strip e).
Proof.
  intros v e; induction e as [c|a|l IHl r IHr]; cbn [ProdSimp.peval ProdSimp.strip].
  - cbn. rewrite H1r. reflexivity.
  - cbn. rewrite H1r. reflexivity.
  - rewrite facprod_app, IHl, IHr. reflexivity.
Qed.

Lemma facprod_split : forall v l, facprod v l = rmul (rprod (consts l)) (aprod v (atoms l)).
Proof.
  intros v l; induction l as [|f l IH].
  - cbn. rewrite H1. reflexivity.
  - cbn [facprod fold_right]. fold (facprod v l). rewrite IH. destruct f as [c|a]; cbn.
    + fold (consts l). fold (atoms l). fold (rprod (consts l)). rewrite Hassoc. reflexivity.
    + fold (consts l). fold (atoms l). fold (rprod (consts l)). fold (aprod v (atoms l)).
      rewrite Hassoc, (Hcomm (v a)), <- Hassoc. reflexivity.
Qed.

Lemma all_num_no_atoms : forall l : list fac, forallb (is_num R) l = true -> atoms l = [].
Proof.
  induction l as [|f l IH]; intros H; [reflexivity|].
  cbn [forallb] in H. apply andb_prop in H. destruct H as [Hf Hl]. destruct f as [c|a]; [|discriminate Hf].
  cbn. apply IH. exact Hl.
Qed.

Lemma zero_factor : forall v (l : list fac), existsb (is_zero_fac R r0 reqb) l = true -> facprod v l = r0.
Proof.
  intros v l; induction l as [|f l IH]; intros H; [discriminate H|].
  cbn [existsb] in H. cbn [facprod fold_right]. fold (facprod v l).
  apply orb_prop in H. destruct H as [H|H].
  - destruct f as [c|a]; [|discriminate H]. cbn in H. apply Heqb in H. subst c. cbn. apply H0.
  - rewrite (IH H). rewrite Hcomm. apply H0.
Qed.

Lemma list_nat_eqb_eq : forall l m, list_nat_eqb l m = true -> l = m.
Proof.
  induction l as [|a l IH]; intros [|b m] H; try discriminate H; [reflexivity|].
  cbn in H. apply andb_prop in H. destruct H as [Hab Hlm].
  apply Nat.eqb_eq in Hab. subst b. rewrite (IH m Hlm). reflexivity.
Qed.

Lemma accept_oriented_sound : forall l r, accept_oriented R rmul r0 r1 reqb l r = true -> forall v, peval v l = peval v r.
Proof.
  intros l r H v. unfold accept_oriented in H.
  rewrite !peval_strip.
  apply orb_prop in H. destruct H as [H|H]; [apply orb_prop in H; destruct H as [H|H]|].
  - apply andb_prop in H. destruct H as [Hall Hc]. destruct r as [c|a|r1' r2']; try discriminate Hc.
    apply Heqb in Hc. rewrite facprod_split, (all_num_no_atoms _ Hall). cbn. rewrite !H1r. exact Hc.
  - apply andb_prop in H. destruct H as [Hc Hz]. destruct r as [c|a|r1' r2']; try discriminate Hc.
    apply Heqb in Hc. subst c. rewrite (zero_factor v _ Hz). cbn. rewrite H1r. reflexivity.
  - apply andb_prop in H. destruct H as [H Hat]. apply andb_prop in H. destruct H as [_ Hc].
    apply Heqb in Hc. apply list_nat_eqb_eq in Hat.
    rewrite !facprod_split, Hc, Hat. reflexivity.
Qed.

Theorem accept_sound : forall l r, accept R rmul r0 r1 reqb l r = true -> forall v, peval v l = peval v r.
Proof.
  intros l r H v. unfold accept in H.
  destruct (negb (is_mul R l) && negb (is_mul R r)); [discriminate H|].
  destruct (negb (is_mul R l) && is_mul R r).
  - symmetry. apply accept_oriented_sound. exact H.
  - apply accept_oriented_sound. exact H.
Qed.

End ProdSound.

(* ---- instances ---- *)
Lemma Zeqb_true : forall a b : Z, Z.eqb a b = true -> a = b.
Proof. intros a b H. apply Z.eqb_eq. exact H. Qed.

Theorem accept_Z_sound : forall l r, accept_Z l r = true -> forall v, peval Z Z.mul v l = peval Z Z.mul v r.
Proof.
  intros l r H v. apply (accept_sound Z Z.mul 0%Z 1%Z Z.eqb Z.mul_comm Z.mul_assoc Z.mul_1_l Z.mul_0_l Zeqb_true l r H).
Qed.

Lemma Qc_eq_bool_true : forall a b : Qc, Qc_eq_bool a b = true -> a = b.
Proof. intros a b H. apply Qc_eq_bool_correct. exact H. Qed.

Theorem accept_Qc_sound : forall l r, accept_Qc l r = true -> forall v, peval Qc Qcmult v l = peval Qc Qcmult v r.
Proof.
  intros l r H v.
  apply (accept_sound Qc Qcmult (Q2Qc 0) (Q2Qc 1) Qc_eq_bool Qcmult_comm Qcmult_assoc Qcmult_1_l Qcmult_0_l Qc_eq_bool_true l r H).
Qed.

(* comparing the non-numeral factors as sets accepts 2 * x * 3 * x = 6 * x, false at x = -2 *)
Theorem accept_sets_refuted :
  exists l r v, accept_sets Z Z.mul 1%Z Z.eqb l r = true /\ peval Z Z.mul v l <> peval Z Z.mul v r.
Proof.
  exists (PMul (PMul (PMul (PNum 2%Z) (PAtom 0)) (PNum 3%Z)) (PAtom 0)), (PMul (PNum 6%Z) (PAtom 0)), (fun _ => (-2)%Z).
  split; [vm_compute; reflexivity | vm_compute; discriminate].
Qed.

Example accept_Z_nonvacuous :
  accept_Z (PMul (PMul (PMul (PNum 2%Z) (PAtom 0)) (PNum 3%Z)) (PAtom 1)) (PMul (PMul (PNum 6%Z) (PAtom 0)) (PAtom 1)) = true
  /\ accept_Z (PMul (PMul (PMul (PNum 2%Z) (PAtom 0)) (PNum 3%Z)) (PAtom 0)) (PMul (PNum 6%Z) (PAtom 0)) = false.
Proof. split; vm_compute; reflexivity. Qed.
